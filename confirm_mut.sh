#!/bin/bash
# usage: confirm_mut.sh <mutant dir under /tmp/mutout>  -> prints CONFIRMED or why not
D=$1; ID=$(basename $D)
export GOFLAGS=-mod=mod GOPROXY=off GOSUMDB=off
WT=/tmp/confirm/$ID
rm -rf $WT; mkdir -p /tmp/confirm
git -C /repo worktree add -q --detach $WT HEAD || exit 2
cleanup() { git -C /repo worktree remove --force $WT 2>/dev/null; }
trap cleanup EXIT
DEMODIR=$(python3 -c "import json;print(json.load(open('$D/meta.json')).get('demo_dir','websocket').strip('/'))")
DEMODIR=${DEMODIR#/tmp/mutwt/*/}
[ -d "$WT/$DEMODIR" ] || DEMODIR=websocket
DEMO=$(ls $D/*_test.go 2>/dev/null | head -1)
[ -n "$DEMO" ] || { echo "$ID: NO DEMO"; exit 1; }
cp $DEMO $WT/$DEMODIR/zz_demo_test.go
TESTS=$(grep -o "^func Test[A-Za-z0-9_]*" $DEMO | sed 's/func //' | paste -sd'|')
cd $WT
if ! go test -vet=off -count=1 -run "^($TESTS)\$" ./$DEMODIR/ > /tmp/confirm/$ID.clean.log 2>&1; then echo "$ID: DEMO FAILS ON CLEAN TREE"; tail -5 /tmp/confirm/$ID.clean.log; exit 1; fi
if ! git apply $D/patch.diff 2>/tmp/confirm/$ID.apply.log; then echo "$ID: PATCH DOES NOT APPLY"; cat /tmp/confirm/$ID.apply.log; exit 1; fi
rm $WT/$DEMODIR/zz_demo_test.go
if ! go build ./... > /tmp/confirm/$ID.build.log 2>&1; then echo "$ID: DOES NOT BUILD"; exit 1; fi
if ! go test -vet=off -count=1 ./... > /tmp/confirm/$ID.suite.log 2>&1; then
  if grep -v TestHandlerHandleSignedLatency /tmp/confirm/$ID.suite.log | grep -q "^--- FAIL"; then echo "$ID: SUITE FAILS WITH PATCH"; grep "^--- FAIL" /tmp/confirm/$ID.suite.log; exit 1; fi
fi
cp $DEMO $WT/$DEMODIR/zz_demo_test.go
if go test -vet=off -count=1 -run "^($TESTS)\$" ./$DEMODIR/ > /tmp/confirm/$ID.mut.log 2>&1; then echo "$ID: DEMO PASSES WITH PATCH (not a demonstration)"; exit 1; fi
echo "$ID: CONFIRMED (demo=$DEMODIR tests=$TESTS)"
