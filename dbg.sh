#!/bin/bash
# debugging helper: ./dbg.sh PROP [budget_ms] [any-regex]
export GOFLAGS=-mod=mod GOPROXY=off GOSUMDB=off GOTOOLCHAIN=local
/verif/gen.sh >/dev/null && cd /verif/hsim && go1.26.8 test -tags verif -c -o /verif/.build/hsim.test . || exit 2
cd /verif/.build && HSIM_OUT=/tmp/o.json HSIM_PROP=$1 HSIM_BUDGET_MS=${2:-3000} HSIM_ANY=$3 HSIM_SEED=${SEED:-0} HSIM_NOSHRINK=$NOSHRINK HSIM_KNOWN=/verif/known_findings.json ./hsim.test -test.run TestCheck -test.timeout 600s >/tmp/o.log 2>&1; tail -3 /tmp/o.log; python3 /tmp/show.py < /tmp/o.json 2>&1 | grep -v '^{"prop' | cut -c1-2500
