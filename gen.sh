#!/bin/bash
# regenerate the instrumented trees under .build/gen from /repo and the module cache
set -e
cd "$(dirname "$0")"
export GOFLAGS=-mod=mod GOPROXY=off GOSUMDB=off GOTOOLCHAIN=local
REPO=${VERIF_REPO:-/repo}
MC=$(go1.26.8 env GOMODCACHE)
mkdir -p .build
[ -x .build/simgen ] || (cd simgen && go1.26.8 build -o ../.build/simgen .)
rm -rf .build/gen.tmp && mkdir -p .build/gen.tmp
.build/simgen -src "$REPO" -dst .build/gen.tmp/hagall -module github.com/aukilabs/hagall -skip-dirs cmd,smoketest,websocket/testing.go,docs -stmt-points http/auth.go,models/id.go,receipt/handler.go,modules/dagaz/grid_spatial_partition.go -report .build/gen.tmp/hagall.report
.build/simgen -src "$MC/github.com/aukilabs/hagall-common@v0.2.2" -dst .build/gen.tmp/hagall-common -module github.com/aukilabs/hagall-common -instrument websocket/msg.go -exclude-types protoTypeStore -report .build/gen.tmp/common.report
.build/simgen -src "$MC/golang.org/x/net@v0.38.0" -dst .build/gen.tmp/xnet -module golang.org/x/net -instrument websocket/websocket.go,websocket/hybi.go,websocket/server.go -report .build/gen.tmp/xnet.report
cp hooks/dagaz_export_verif.go .build/gen.tmp/hagall/modules/dagaz/zz_export_verif.go
chmod -R u+w .build/gen.tmp
rm -rf .build/gen && mv .build/gen.tmp .build/gen
