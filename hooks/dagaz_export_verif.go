//go:build verif

// Added to the generated copy of modules/dagaz by /verif/gen.sh (never to /repo): read-only
// accessors for the unexported primitives that property C20 names.
package dagaz

func VerifXYZ(v Vector3f) (float32, float32, float32) { return v.x, v.y, v.z }
func VerifOverlap(a, b Quad) bool                      { return doHorizontalPlanesOverlap(a, b) }
func VerifNormal(c, e Vector3f) Vector3f               { return calculateNormal(c, e) }
func VerifDot(a, b Vector3f) float32                   { return a.Dot(b) }
