package hsim

import (
	"fmt"
	"github.com/aukilabs/hagall-common/messages/vikjapb"
	"os"
	"sort"
	"strings"
	"time"

	"github.com/aukilabs/hagall-common/messages/hagallpb"
	"google.golang.org/protobuf/proto"
)

// ---------------------------------------------------------------------------------------------
// pipelined bursts on one connection

// runBurst sends several requests of one connection back to back and checks the result after
// quiescence. Immediate requests keep their order (one connection is FIFO end to end); pose and
// component updates wait for the next frame and may be coalesced, so their relays are checked
// by the C11 stream rules instead of by exact position. A burst may end with the connection
// leaving (a switch to another session, or a close) while updates are still pending.
func (r *runner) runBurst(steps []Step) {
	c := r.client(steps[0].Conn)
	if r.failed() {
		return
	}
	ci := steps[0].Conn
	mc := r.m.conn(ci)
	if mc.Gone || c.Ended() || c.sentFIN || r.m.Tainted[ci] || mc.Session == nil {
		r.res.Skipped += len(steps)
		return
	}
	var trailing *Step
	if last := &steps[len(steps)-1]; last.Op == "join" || last.Op == "close" {
		trailing = last
		steps = steps[:len(steps)-1]
	}
	r.markAll()
	oldSession := mc.Session
	oldPID := mc.PID
	type sent struct {
		key   string
		ent   uint32
		seq   float32
		data  string
		valid bool
	}
	var ps []*Pending
	touched := map[string]bool{} // keys of deferred updates sent so far in this burst
	for i := range steps {
		st := &steps[i]
		if !isRequestOp(st.Op) || st.Op == "join" {
			continue
		}
		p := r.m.Build(st, st.Conn, c.NextReqID())
		if p.Req == nil {
			continue
		}
		switch q := p.Req.(type) {
		case *hagallpb.EntityUpdatePose:
			if trailing != nil && survives(oldSession, oldPID, q.EntityId) {
				continue // whether a pending update of something that survives the leave is applied first is open
			}
			touched[fmt.Sprintf("pose:%d", q.EntityId)] = true
		case *hagallpb.EntityComponentUpdate:
			if trailing != nil && survives(oldSession, oldPID, q.EntityId) {
				continue
			}
			touched[fmt.Sprintf("comp:%d:%d", q.EntityComponentTypeId, q.EntityId)] = true
		case *hagallpb.EntityComponentAddRequest:
			if touched[fmt.Sprintf("comp:%d:%d", q.EntityComponentTypeId, q.EntityId)] {
				continue // re-adding a component whose update is still pending: final value is open
			}
		}
		ps = append(ps, p)
		c.Send(p.Req)
		r.res.Executed++
	}
	var pj *Pending
	if trailing != nil {
		r.res.Executed++
		r.res.Triggers["burst_then_"+trailing.Op]++
		if trailing.Op == "join" {
			pj = r.m.Build(trailing, ci, c.NextReqID())
			c.Send(pj.Req)
		} else {
			c.CloseFIN()
		}
	}
	r.res.Triggers["burst"]++
	r.quiesce()
	got := c.NonClock(c.Since())
	all := &Outcome{Kind: "burst", Others: map[int][]Exp{}}
	deferred := false
	var sentDeferred []sent
	killed := map[string]bool{} // keys whose target was removed later in the same burst
	for _, p := range ps {
		out := p.Finish(r.m, got)
		for _, v := range out.Viol {
			r.violate(v)
		}
		r.res.Triggers["op:"+out.Kind]++
		if out.Accepted {
			all.Accepted = true
			r.res.Triggers["accepted"]++
		}
		if isDeferredOp(p.Step.Op) {
			deferred = true
			switch q := p.Req.(type) {
			case *hagallpb.EntityUpdatePose:
				sentDeferred = append(sentDeferred, sent{key: fmt.Sprintf("pose:%d", q.EntityId), ent: q.EntityId, seq: q.GetPose().GetPx(), valid: out.Accepted})
			case *hagallpb.EntityComponentUpdate:
				sentDeferred = append(sentDeferred, sent{key: fmt.Sprintf("comp:%d:%d", q.EntityComponentTypeId, q.EntityId), ent: q.EntityId, data: string(q.Data), valid: out.Accepted})
			}
			continue
		}
		if out.Accepted {
			switch q := p.Req.(type) {
			case *hagallpb.EntityDeleteRequest:
				for _, sd := range sentDeferred {
					if sd.ent == q.EntityId {
						killed[sd.key] = true
					}
				}
			case *hagallpb.EntityComponentDeleteRequest:
				killed[fmt.Sprintf("comp:%d:%d", q.EntityComponentTypeId, q.EntityId)] = true
			}
		}
		all.Req = append(all.Req, out.Req...)
		for oi, e := range out.Others {
			all.Others[oi] = append(all.Others[oi], e...)
		}
		all.Props = append(all.Props, out.Props...)
		all.Kind = "burst:" + out.Kind
	}
	if trailing != nil {
		var out *Outcome
		if pj != nil {
			out = pj.Finish(r.m, got)
			if out.Accepted {
				r.afterJoinTags(trailing, c)
			}
		} else {
			out = r.m.Depart(ci)
			r.res.Triggers["departure"]++
		}
		for _, v := range out.Viol {
			r.violate(v)
		}
		all.Req = append(all.Req, out.Req...)
		for oi, e := range out.Others {
			all.Others[oi] = append(all.Others[oi], e...)
		}
		all.Props = append(all.Props, out.Props...)
		all.Kind = "burst:" + out.Kind
		all.Accepted = all.Accepted || out.Accepted
		for _, sd := range sentDeferred {
			killed[sd.key] = true // the owner left: nothing is owed any more
		}
	}
	if c.Ended() && (trailing == nil || trailing.Op != "close") {
		r.v("C08", "active-disconnected", "burst: the server ended connection %s (%s)", c.Label, c.DisconnectErr)
		return
	}
	// immediate part: exact, with deferred relay classes taken out of the streams
	strip := func(ms []*RecvMsg) []*RecvMsg {
		if !deferred {
			return ms
		}
		var out []*RecvMsg
		for _, m := range ms {
			if m.Type != 15 && m.Type != 31 {
				out = append(out, m)
			}
		}
		return out
	}
	r.lastOut = all
	for _, oi := range r.sortedClients() {
		o := r.clients[oi]
		if o.reset || (o != c && o.Ended()) || (o == c && trailing != nil && trailing.Op == "close") {
			continue
		}
		actual := strip(o.NonClock(o.Since()))
		var exp []Exp
		if o == c {
			exp = all.Req
		} else {
			exp = all.Others[oi]
		}
		if mm := matchStream(actual, filterExp(exp, r.dis)); mm != nil {
			if o == c {
				r.attributeAnswer(all, o, mm)
			} else {
				r.attributeRelay(all, o, mm)
			}
		}
	}
	// deferred part: per observer and per key the relays are an order preserving selection of
	// what was sent, ending with the last one unless the target was removed or the owner left
	if deferred && len(r.dis) == 0 {
		r.res.Triggers["deferred_burst"]++
		for _, oi := range r.sortedClients() {
			o := r.clients[oi]
			if o == c || o.Ended() {
				continue
			}
			oc := r.m.conn(oi)
			inOld := oldSession != nil && oc.Session != nil && oc.Session.UUID == oldSession.UUID
			byKey := map[string][]sent{}
			for _, s := range sentDeferred {
				if s.valid {
					byKey[s.key] = append(byKey[s.key], s)
				}
			}
			gotKey := map[string][]sent{}
			removedAt := map[uint32]int{} // entity -> index of its delete relay in the observer's window
			leftAt := -1
			window := o.Since()
			for idx, m := range window {
				switch q := m.Msg.(type) {
				case *hagallpb.EntityUpdatePoseBroadcast:
					k := fmt.Sprintf("pose:%d", q.EntityId)
					gotKey[k] = append(gotKey[k], sent{key: k, ent: q.EntityId, seq: q.GetPose().GetPx()})
					if at, ok := removedAt[q.EntityId]; ok && inOld {
						r.v("C11", "pose-after-delete", "%s was relayed a pose of entity %d (message %d of the window) after the relay of its deletion (message %d)", o.Label, q.EntityId, idx, at)
					}
					if leftAt >= 0 && inOld {
						r.v("C11", "pose-after-delete", "%s was relayed a pose of entity %d after the relay of its owner's departure", o.Label, q.EntityId)
					}
				case *hagallpb.EntityComponentUpdateBroadcast:
					k := fmt.Sprintf("comp:%d:%d", q.GetEntityComponent().GetEntityComponentTypeId(), q.GetEntityComponent().GetEntityId())
					gotKey[k] = append(gotKey[k], sent{key: k, data: string(q.GetEntityComponent().GetData())})
				case *hagallpb.EntityDeleteBroadcast:
					removedAt[q.EntityId] = idx
				case *hagallpb.ParticipantLeaveBroadcast:
					if q.ParticipantId == oldPID {
						leftAt = idx
					}
				}
			}
			if !inOld {
				// a member of another session (for instance the one the sender switched to) must
				// see nothing of these updates
				for k, g := range gotKey {
					r.v("C11", "invalid-update-had-effect", "%s is not in the sender's session and was relayed %d update(s) of %s", o.Label, len(g), k)
					r.v("C03", "foreign-effect", "%s is not in the sender's session and was relayed %d update(s) of %s", o.Label, len(g), k)
				}
				continue
			}
			for k, g := range gotKey {
				if len(byKey[k]) == 0 {
					r.v("C11", "invalid-update-had-effect", "%s was relayed %d update(s) of %s although none was accepted", o.Label, len(g), k)
					r.v("C02", "relay-of-refused", "%s was relayed %d update(s) of %s although none was accepted", o.Label, len(g), k)
				}
			}
			for k, sl := range byKey {
				g := gotKey[k]
				isComp := strings.HasPrefix(k, "comp:")
				if isComp {
					var typ uint32
					fmt.Sscanf(k, "comp:%d:", &typ)
					if !oldSession.Subs[typ][oc.PID] {
						if len(g) > 0 {
							r.v("C13", "notify-unsubscribed", "%s is not subscribed but was relayed updates of %s", o.Label, k)
						}
						continue
					}
				}
				j := 0
				for _, x := range g {
					for j < len(sl) && !(sl[j].seq == x.seq && sl[j].data == x.data) {
						j++
					}
					if j == len(sl) {
						r.v("C11", "pose-reordered", "%s: relays of %s are not an order-preserving selection of what was sent: got %v, sent %v", o.Label, k, g, sl)
						r.v("C02", "relay-order", "%s: relays of %s are not an order-preserving selection of what was sent", o.Label, k)
						break
					}
					j++
				}
				if killed[k] {
					r.res.Triggers["deferred_target_removed"]++
					continue
				}
				if len(g) == 0 || g[len(g)-1].seq != sl[len(sl)-1].seq || g[len(g)-1].data != sl[len(sl)-1].data {
					r.v("C11", "pose-last-not-relayed", "%s: the last update of %s sent (%v) was not the last relayed (%v)", o.Label, k, sl[len(sl)-1], g)
					if isComp {
						r.v("C13", "notify-missing", "%s: the last update of %s was not relayed", o.Label, k)
					}
				}
				if len(g) > 1 {
					r.res.Triggers["pose_multi_frame"]++
				} else if len(sl) > 1 {
					r.res.Triggers["pose_coalesced"]++
				}
			}
		}
	}
	if trailing != nil && trailing.Op == "close" {
		r.checkEnded(c, "close with updates pending")
	}
	r.checkState(all)
}

// survives: the entity (and what hangs on it) is still there after participant pid has left.
func survives(s *MSession, pid, ent uint32) bool {
	if s == nil {
		return false
	}
	e := s.Entities[ent]
	return e != nil && (e.Owner != pid || e.Persist)
}

// ---------------------------------------------------------------------------------------------
// concurrent blocks

func permutations(n int) [][]int {
	if n == 0 {
		return [][]int{{}}
	}
	var out [][]int
	var rec func(cur []int, used []bool)
	rec = func(cur []int, used []bool) {
		if len(cur) == n {
			out = append(out, append([]int(nil), cur...))
			return
		}
		for i := 0; i < n; i++ {
			if !used[i] {
				used[i] = true
				rec(append(cur, i), used)
				used[i] = false
			}
		}
	}
	rec(nil, make([]bool, n))
	return out
}

type blockReq struct {
	st     *Step
	c      *Client
	p      *Pending
	closes bool
}

// answersOf selects from a requester's window the messages that answer request p.
func answersOf(p *Pending, window []*RecvMsg) []*RecvMsg {
	var out []*RecvMsg
	for _, m := range window {
		switch {
		case p.RID != 0 && m.ReqID == p.RID:
			out = append(out, m)
		case p.Step.Op == "join" && (m.Type == 2 || m.Type == 100 || m.Type == 200):
			out = append(out, m)
		case p.RID == 0 && m.Type == 0 && m.ReqID == 0:
			out = append(out, m) // the too-large refusal of a custom message carries no id
		}
	}
	return out
}

// runBlock releases 2..n requests on different connections at the same simulated instant and
// lets the schedule policy interleave their handling at lock granularity.
func (r *runner) runBlock(steps []Step) {
	var reqs []*blockReq
	seen := map[int]bool{}
	for i := range steps {
		st := &steps[i]
		if seen[st.Conn] {
			continue
		}
		c := r.client(st.Conn)
		if r.failed() {
			return
		}
		mc := r.m.conn(st.Conn)
		if mc.Gone || c.Ended() || c.sentFIN || (r.m.Tainted[st.Conn] && st.Op == "join") {
			r.res.Skipped++
			continue
		}
		seen[st.Conn] = true
		reqs = append(reqs, &blockReq{st: st, c: c})
	}
	if len(reqs) == 0 {
		return
	}
	r.markAll()
	before := map[int]*MSession{}
	for ci := range r.clients {
		before[ci] = r.m.conn(ci).Session
	}
	r.w.sim.BeginBlock()
	// Updates that wait for the next frame are sent first; the other members of the block are
	// then timed to arrive at the very instant of a frame tick (when the network has no jitter),
	// so that their handling overlaps the flush of those updates.
	hasDeferred, hasOther := false, false
	for _, q := range reqs {
		if isDeferredOp(q.st.Op) {
			hasDeferred = true
		} else {
			hasOther = true
		}
	}
	align := hasDeferred && hasOther && r.w.cfg.Net.Jitter == 0 && r.w.netr.Bool(0.7)
	if align {
		sort.SliceStable(reqs, func(i, j int) bool { return isDeferredOp(reqs[i].st.Op) && !isDeferredOp(reqs[j].st.Op) })
	}
	aligned := false
	for _, q := range reqs {
		if align && !aligned && !isDeferredOp(q.st.Op) {
			aligned = true
			lat := r.w.cfg.Net.MinLat
			now := r.w.sim.Now()
			var cands []time.Duration
			for _, at := range r.w.sim.EventTimes("ticker") {
				if at > now+lat && at <= now+lat+2*r.w.cfg.FrameDuration+time.Millisecond {
					cands = append(cands, at)
				}
			}
			if len(cands) > 0 {
				at := cands[r.w.netr.Intn(len(cands))]
				r.w.sim.RunUntil(at - lat)
				r.res.Triggers["block_aligned_to_tick"]++
				r.w.sim.Stats["probe.arrival_at_frame_tick"]++
			}
		}
		r.res.Executed++
		if q.st.Op == "close" || q.st.Op == "rst" {
			q.closes = true
			r.departStep = r.stepIdx
			if q.st.Op == "close" {
				q.c.CloseFIN()
			} else {
				q.c.Reset()
			}
			continue
		}
		q.p = r.m.Build(q.st, q.st.Conn, q.c.NextReqID())
		if q.st.Op == "join" && before[q.st.Conn] != nil {
			r.departStep = r.stepIdx // a switch is a departure from the old session
		}
		if q.p.Req != nil {
			q.c.Send(q.p.Req)
		}
	}
	r.res.Triggers["block"]++
	r.res.Triggers[fmt.Sprintf("block_size_%d", len(reqs))]++
	r.quiesce()
	sig := r.w.sim.EndBlock()
	r.res.Blocks[sig] = true
	if r.w.sim.Failure != "" {
		return
	}

	// deadlock: a task waiting for a lock at quiescence waits forever
	for _, t := range r.w.sim.LiveTasks() {
		if t.State() == "lockwait" {
			r.v("C09", "deadlock", "after a concurrent block a task is still waiting for a lock: %s", strings.Join(r.w.sim.Describe(), "; "))
			return
		}
	}

	// try every order of the block against the model: an order is consistent when every
	// answer is admissible, the server's state equals the model's afterwards, and every member
	// that stayed in its session throughout received exactly the relays that order implies.
	type cand struct {
		m     *Model
		outs  []*Outcome
		order []int
		bad   []string
		diffs int
		relay string
	}
	var best *cand
	var firstAnswerProblem string
	better := func(a, b *cand) bool { // is a better than b
		if b == nil {
			return true
		}
		if (len(a.bad) == 0) != (len(b.bad) == 0) {
			return len(a.bad) == 0
		}
		if len(a.bad) > 0 {
			return len(a.bad) < len(b.bad)
		}
		if (a.diffs == 0) != (b.diffs == 0) {
			return a.diffs == 0
		}
		if a.diffs != b.diffs {
			return a.diffs < b.diffs
		}
		return a.relay == "" && b.relay != ""
	}
	perms := permutations(len(reqs)) // at most 5 requests (120 orders); larger blocks take the liveness path
	for _, perm := range perms {
		mc := r.m.Clone()
		cd := &cand{m: mc, order: perm, outs: make([]*Outcome, len(reqs))}
		for _, idx := range perm {
			q := reqs[idx]
			var out *Outcome
			if q.closes {
				out = mc.Depart(q.st.Conn)
			} else if q.p.Req == nil {
				continue
			} else {
				window := q.c.NonClock(q.c.Since())
				ans := answersOf(q.p, window)
				out = q.p.Finish(mc, ans)
				if q.c.Ended() {
					if !out.MayEnd && !out.MustEnd {
						cd.bad = append(cd.bad, fmt.Sprintf("%s: connection %s was ended by the server (%s)", out.Kind, q.c.Label, q.c.DisconnectErr))
					}
					dep := mc.Depart(q.st.Conn)
					for ci, e := range dep.Others {
						out.Others = mergeOthers(out.Others, ci, e)
					}
				} else if !out.StateOnly {
					if mm := matchStream(ans, filterExp(out.Req, r.dis)); mm != nil {
						cd.bad = append(cd.bad, fmt.Sprintf("%s at %s: %s", out.Kind, q.c.Label, mm.Detail))
					}
				}
				for _, v := range out.Viol {
					cd.bad = append(cd.bad, v.Prop+"/"+v.Rule+": "+v.Detail)
				}
			}
			cd.outs[idx] = out
		}
		if len(cd.bad) > 0 {
			if firstAnswerProblem == "" {
				firstAnswerProblem = fmt.Sprintf("order %v: %s", perm, strings.Join(cd.bad, " | "))
			}
		} else {
			cd.diffs = len(r.serverDiffs(mc))
			cd.relay = r.blockRelays(mc, cd.outs, reqs, before)
		}
		if os.Getenv("HSIM_DEBUG_BLOCK") != "" {
			fmt.Printf("block candidate %v: bad=%v diffs=%d relay=%q\n", perm, cd.bad, cd.diffs, cd.relay)
			if len(cd.bad) == 0 {
				fmt.Printf("   server diffs: %v\n", r.serverDiffs(mc))
			}
		}
		if better(cd, best) {
			best = cd
		}
		if len(cd.bad) == 0 && cd.diffs == 0 && cd.relay == "" {
			break
		}
	}
	kinds := []string{}
	for _, q := range reqs {
		kinds = append(kinds, q.st.Op)
	}
	sort.Strings(kinds)
	r.res.Triggers["blockkinds:"+strings.Join(kinds, "+")]++
	if len(best.bad) > 0 {
		// No serial order explains the answers (for instance a joiner whose snapshot misses a
		// member that was half way out). The properties quantified over schedules do not demand
		// serializable answers: what they demand is checked without the model below (exactly one
		// answer per request, registry beliefs, views against the server's own state, id
		// ledger, deadlock). The model cannot follow from here; the scenario ends after this.
		r.res.Stats["probe.block_answers_not_serializable"]++
		r.res.Triggers["block_answers_not_serializable:"+strings.Join(kinds, "+")]++
		r.desync = true
		r.doubleSuccess(reqs, kinds)
		r.staleWinner(reqs, kinds, before)
		r.creationRefused(reqs, kinds)
		for _, q := range reqs {
			if q.closes || q.p == nil || q.p.RID == 0 || q.c.Ended() {
				continue
			}
			if before[q.st.Conn] == nil && q.st.Op != "join" && q.st.Op != "ping" {
				continue
			}
			n := 0
			for _, m := range q.c.Since() {
				if m.ReqID == q.p.RID {
					n++
				}
			}
			if n == 0 {
				r.v("C09", "request-unanswered", "%s by %s (request id %d) in concurrent block %v was never answered: %s", q.st.Op, q.c.Label, q.p.RID, kinds, strings.Join(r.w.sim.Describe(), "; "))
			} else if n > 1 {
				r.v("C09", "request-answered-twice", "%s by %s (request id %d) in concurrent block %v was answered %d times", q.st.Op, q.c.Label, q.p.RID, kinds, n)
			}
		}
		r.inBlock = true
		r.checkState(&Outcome{Kind: "block"})
		r.inBlock = false
		r.annotateBlock(kinds, reqs, "no serial order explains the answers")
		if r.sc.Family == "grid" {
			r.checkGrid(&steps[0], reqs[0].c)
		}
		return
	}
	// adopt the order that explains the observations best
	r.m = best.m
	for _, o := range best.outs {
		if o != nil {
			r.res.Triggers["op:"+o.Kind]++
			if o.Accepted {
				r.res.Triggers["accepted"]++
			}
		}
	}
	r.staleWinner(reqs, kinds, before)
	if best.diffs > 0 {
		// The final state is not the result of any serial order (a check-then-act window in
		// the server). No property quantified over schedules demands serializability of the
		// state itself; what they demand (views = server state, exactly-once relays, no
		// deadlock, ids) is checked below and by the other oracles. The model cannot follow
		// the server from here, so the scenario ends after this block.
		r.res.Stats["probe.block_not_serializable"]++
		r.res.Triggers["block_not_serializable:"+strings.Join(kinds, "+")]++
		r.desync = true
	} else if best.relay != "" {
		r.v("C02", "relay-count-concurrent", "concurrent block %v: %s", kinds, best.relay)
		r.v("C09", "block-relay-mismatch", "concurrent block %v: %s", kinds, best.relay)
		if strings.Contains(best.relay, "CustomMessageBroadcast") {
			r.v("C14", "recipient-extra", "concurrent block %v: %s", kinds, best.relay)
		}
	}
	blk := &Outcome{Kind: "block"}
	r.lastOut = blk
	r.inBlock = true
	r.checkState(blk)
	r.inBlock = false
	if r.sc.Family == "grid" {
		r.checkGrid(&steps[0], reqs[0].c)
	}
	r.annotateBlock(kinds, reqs, fmt.Sprintf("order %v explains the answers", best.order))
	for _, q := range reqs {
		if q.closes || q.c.Ended() {
			r.checkEnded(q.c, "block")
		}
	}
}

// blockRelays checks exactly-once delivery at the members that are in their session throughout
// the block, for one candidate order. It returns "" when everything matches.
func (r *runner) blockRelays(m *Model, outs []*Outcome, reqs []*blockReq, before map[int]*MSession) string {
	need := map[int][]Exp{}
	for _, o := range outs {
		if o == nil {
			continue
		}
		for ci, e := range o.Others {
			need[ci] = append(need[ci], e...)
		}
	}
	for _, ci := range r.sortedClients() {
		o := r.clients[ci]
		if o.Ended() || o.reset {
			continue
		}
		after := m.conn(ci).Session
		if before[ci] == nil || after == nil || before[ci].UUID != after.UUID {
			continue // joined, left or switched during the block
		}
		var mine *blockReq
		for _, q := range reqs {
			if q.c == o {
				mine = q
			}
		}
		var relays []*RecvMsg
		window := o.NonClock(o.Since())
		own := map[*RecvMsg]bool{}
		if mine != nil && mine.p != nil {
			for _, a := range answersOf(mine.p, window) {
				own[a] = true
			}
		}
		for _, x := range window {
			if !own[x] {
				relays = append(relays, x)
			}
		}
		if d := matchMultiset(relays, filterExp(need[ci], r.dis)); d != "" {
			return fmt.Sprintf("observer %s (member throughout): %s", o.Label, d)
		}
	}
	return ""
}

// matchMultiset: every required message exactly once, optional ones at most once, nothing else.
func matchMultiset(actual []*RecvMsg, exp []Exp) string {
	type item struct {
		m        proto.Message
		any, opt bool
		used     bool
	}
	var items []*item
	for _, g := range exp {
		for _, m := range g.Msgs {
			items = append(items, &item{m: norm(m, g.AnyOrigin), any: g.AnyOrigin, opt: g.Optional})
		}
	}
	for _, a := range actual {
		if a.Msg == nil {
			return fmt.Sprintf("undecodable message of type %d", a.Type)
		}
		found := false
		for _, it := range items {
			if it.used {
				continue
			}
			if proto.Equal(norm(a.Msg, it.any), it.m) {
				it.used = true
				found = true
				break
			}
		}
		if !found {
			dup := false
			for _, it := range items {
				if proto.Equal(norm(a.Msg, it.any), it.m) {
					dup = true
				}
			}
			if dup {
				return "received twice: " + short(norm(a.Msg, false))
			}
			return "received but not caused by any request of the block: " + short(norm(a.Msg, false))
		}
	}
	for _, it := range items {
		if !it.used && !it.opt {
			return "never received: " + short(it.m)
		}
	}
	return ""
}

// serverDiffs compares the server's state with a candidate model (used to choose among orders).
func (r *runner) serverDiffs(m *Model) []string {
	save := r.m
	saveV := r.res.Violations
	r.m = m
	r.res.Violations = nil
	r.checkServerOnly()
	var out []string
	for _, v := range r.res.Violations {
		out = append(out, v.Detail)
	}
	r.m = save
	r.res.Violations = saveV
	return out
}

// ---------------------------------------------------------------------------------------------
// control steps (faults)

func (r *runner) control(st *Step, c *Client) {
	switch st.Op {
	case "stall":
		c.Stall()
	case "resume":
		c.Resume()
		r.quiesce()
	case "silence":
		r.w.sim.RunFor(st.Dur)
		r.quiesce()
	case "ws_ping":
		c.SendRaw(encodeFrame(opPing, true, []byte("hb"), c.maskKey(), -1))
		r.quiesce()
	}
	_ = time.Second
}

// annotateBlock prefixes the violations found right after a concurrent block with the block's
// kinds, and marks view violations of an observer that joined during the block (the known
// stale-snapshot window) so that they can be told apart from every other view violation.
func (r *runner) annotateBlock(kinds []string, reqs []*blockReq, note string) {
	joiners := map[string]bool{}
	for _, q := range reqs {
		if q.st.Op == "join" {
			joiners[q.c.Label] = true
		}
	}
	cont := contended(reqs)
	for i := range r.res.Violations {
		v := &r.res.Violations[i]
		if v.Step != r.stepIdx || strings.Contains(v.Detail, "concurrent block") {
			continue
		}
		who := strings.TrimSuffix(strings.Fields(v.Detail + " x")[0], "'s")
		mark := ""
		if joiners[who] && strings.HasPrefix(v.Rule, "view-") && r.relayBeforeState(who) && r.overtaken(who, v.Keys) {
			// the known stale-snapshot window: the change the view misses *was* relayed to the
			// joiner, but ahead of the SESSION_STATE that then overwrote it
			mark = " [observer joined during the block and was relayed a change ahead of its SESSION_STATE]"
		} else if joiners[who] && (v.Rule == "view-actions" || v.Rule == "joiner-state-mismatch" && strings.Contains(v.Detail, "entity actions")) && r.relayBefore(who, 103, 100) {
			// the same window in the vikja module: snapshot of the actions, then enqueue
			mark = " [observer joined during the block and was relayed a change ahead of its VIKJA_STATE]"
		} else if joiners[who] && (v.Rule == "view-assets" || v.Rule == "joiner-state-mismatch" && strings.Contains(v.Detail, "asset instances")) && r.relayBefore(who, 203, 200) {
			mark = " [observer joined during the block and was relayed a change ahead of its ODAL_STATE]"
		}
		if len(v.Keys) > 0 && r.aheadOfEntityAdd(reqs, who, v.Keys) {
			// the change-then-relay window between two requests: something was attached to an
			// entity that another connection had just added, and the relay of the attachment
			// reached the observer before the relay that adds the entity
			mark += fmt.Sprintf(" [the differing entries %v were relayed to the observer ahead of the relay that adds their entity]", v.Keys)
		}
		if len(v.Keys) > 0 && r.listOvertaken(reqs, who, v.Keys) {
			// the known stale-snapshot window once more: the list answer was computed, a change
			// of the very entry was relayed to the requester, then the (stale) answer was enqueued
			mark += fmt.Sprintf(" [observer listed the type during the block and was relayed a change of the differing entry %v ahead of the list answer]", v.Keys)
		}
		if len(v.Keys) > 0 {
			all := true
			for _, k := range v.Keys {
				if !cont[k] {
					all = false
				}
			}
			for _, k := range v.Keys {
				if r.doubleKeys[k] {
					all = false // two adds of one key both succeeded: not the relay-order window
				}
			}
			if all {
				// the known change-then-relay window: every entry that differs was changed by two
				// connections in this very block
				mark += fmt.Sprintf(" [every differing entry %v was changed by two connections at the same instant]", v.Keys)
			}
		}
		v.Detail = fmt.Sprintf("after concurrent block %v (%s): %s%s", kinds, note, v.Detail, mark)
	}
	// a departure in the block: ghosts in a view are departure clean-up that was not relayed
	departs := false
	for _, q := range reqs {
		if q.closes || q.st.Op == "join" {
			departs = true
		}
	}
	if departs {
		for _, v := range r.res.Violations {
			if v.Step == r.stepIdx && v.Prop == "C01" && (v.Rule == "view-participants" || v.Rule == "view-entities") && !strings.Contains(v.Detail, "ahead of its SESSION_STATE") {
				r.violate(Violation{Prop: "C06", Rule: "leave-relay-count", Detail: v.Detail})
				break
			}
		}
	}
}

// contended: the state entries (component (type, entity), action entity/name) that requests of
// at least two different connections of the block target.
func contended(reqs []*blockReq) map[string]bool {
	who := map[string]map[int]bool{}
	note := func(k string, c int) {
		if who[k] == nil {
			who[k] = map[int]bool{}
		}
		who[k][c] = true
	}
	for _, q := range reqs {
		if q.p == nil {
			continue
		}
		switch a := q.p.Req.(type) {
		case *hagallpb.EntityComponentAddRequest:
			note(fmt.Sprintf("comp:%v", CKey{a.EntityComponentTypeId, a.EntityId}), q.c.ID)
		case *hagallpb.EntityComponentDeleteRequest:
			note(fmt.Sprintf("comp:%v", CKey{a.EntityComponentTypeId, a.EntityId}), q.c.ID)
		case *hagallpb.EntityComponentUpdate:
			note(fmt.Sprintf("comp:%v", CKey{a.EntityComponentTypeId, a.EntityId}), q.c.ID)
		case *vikjapb.EntityActionRequest:
			if ea := a.GetEntityAction(); ea != nil {
				note(fmt.Sprintf("action:%d/%s", ea.EntityId, ea.Name), q.c.ID)
			}
		}
	}
	out := map[string]bool{}
	for k, cs := range who {
		if len(cs) >= 2 {
			out[k] = true
		}
	}
	return out
}

// aheadOfEntityAdd: every key (action:E/name, comp:{t E}) names an entity E whose
// EntityAddBroadcast reached the client in its current window only after a relay that attaches
// that very entry to E.
func (r *runner) aheadOfEntityAdd(reqs []*blockReq, label string, keys []string) bool {
	for _, c := range r.clients {
		if c.Label != label {
			continue
		}
		attachedAt := map[string]int{}
		addedAt := map[uint32]int{}
		for i, m := range c.Since() {
			switch x := m.Msg.(type) {
			case *hagallpb.EntityAddBroadcast:
				if _, ok := addedAt[x.GetEntity().GetId()]; !ok {
					addedAt[x.GetEntity().GetId()] = i
				}
			case *vikjapb.EntityActionBroadcast:
				k := fmt.Sprintf("action:%d/%s", x.GetEntityAction().GetEntityId(), x.GetEntityAction().GetName())
				if _, ok := attachedAt[k]; !ok {
					attachedAt[k] = i
				}
			case *hagallpb.EntityComponentAddBroadcast:
				k := fmt.Sprintf("comp:%v", CKey{x.GetEntityComponent().GetEntityComponentTypeId(), x.GetEntityComponent().GetEntityId()})
				if _, ok := attachedAt[k]; !ok {
					attachedAt[k] = i
				}
			}
		}
		// the observer may be the author: then the answer to its own request takes the place of
		// the relay (it named an entity it had not been told about yet)
		for _, q := range reqs {
			if q.c != c || q.p == nil {
				continue
			}
			k := ""
			switch a := q.p.Req.(type) {
			case *vikjapb.EntityActionRequest:
				k = fmt.Sprintf("action:%d/%s", a.GetEntityAction().GetEntityId(), a.GetEntityAction().GetName())
			case *hagallpb.EntityComponentAddRequest:
				k = fmt.Sprintf("comp:%v", CKey{a.EntityComponentTypeId, a.EntityId})
			}
			if k == "" {
				continue
			}
			for i, m := range c.Since() {
				if m.ReqID == q.p.RID && q.p.RID != 0 {
					if _, ok := attachedAt[k]; !ok {
						attachedAt[k] = i
					}
					break
				}
			}
		}
		for _, k := range keys {
			var e, t uint32
			switch {
			case strings.HasPrefix(k, "action:"):
				fmt.Sscanf(k, "action:%d/", &e)
			case strings.HasPrefix(k, "comp:{"):
				fmt.Sscanf(k, "comp:{%d %d}", &t, &e)
			default:
				return false
			}
			at, ok1 := attachedAt[k]
			ad, ok2 := addedAt[e]
			if !ok1 || !ok2 || at > ad {
				return false
			}
		}
		return len(keys) > 0
	}
	return false
}

// listOvertaken: label issued a component list request in this block and, in its window, a
// relay concerning every one of the given component keys precedes the list answer.
func (r *runner) listOvertaken(reqs []*blockReq, label string, keys []string) bool {
	var lister *blockReq
	for _, q := range reqs {
		if q.st.Op == "comp_list" && q.c.Label == label && q.p != nil {
			lister = q
		}
	}
	if lister == nil {
		return false
	}
	seen := map[string]bool{}
	for _, m := range lister.c.Since() {
		if m.Type == 33 && m.ReqID == lister.p.RID {
			break
		}
		var ec *hagallpb.EntityComponent
		switch x := m.Msg.(type) {
		case *hagallpb.EntityComponentAddBroadcast:
			ec = x.GetEntityComponent()
		case *hagallpb.EntityComponentUpdateBroadcast:
			ec = x.GetEntityComponent()
		case *hagallpb.EntityComponentDeleteBroadcast:
			ec = x.GetEntityComponent()
		}
		if ec != nil {
			seen[fmt.Sprintf("comp:%v", CKey{ec.GetEntityComponentTypeId(), ec.GetEntityId()})] = true
		}
	}
	for _, k := range keys {
		if !seen[k] {
			return false
		}
	}
	return true
}

// overtaken: every state entry the violation is about (participant, entity, component key) was
// the subject of a relay that the client received ahead of its SESSION_STATE. Violations that
// name no entries (none do among the view rules) are not covered.
func (r *runner) overtaken(label string, keys []string) bool {
	if len(keys) == 0 {
		return false
	}
	seen := map[string]bool{}
	for _, c := range r.clients {
		if c.Label != label {
			continue
		}
		for _, m := range c.Since() {
			if m.Type == 2 {
				break
			}
			switch x := m.Msg.(type) {
			case *hagallpb.ParticipantJoinBroadcast:
				seen[fmt.Sprintf("pid:%d", x.ParticipantId)] = true
			case *hagallpb.ParticipantLeaveBroadcast:
				seen[fmt.Sprintf("pid:%d", x.ParticipantId)] = true
			case *hagallpb.EntityAddBroadcast:
				seen[fmt.Sprintf("ent:%d", x.GetEntity().GetId())] = true
			case *hagallpb.EntityDeleteBroadcast:
				seen[fmt.Sprintf("ent:%d", x.EntityId)] = true
				seen[fmt.Sprintf("entc:%d", x.EntityId)] = true
			case *hagallpb.EntityUpdatePoseBroadcast:
				seen[fmt.Sprintf("ent:%d", x.EntityId)] = true
			case *hagallpb.EntityComponentAddBroadcast:
				seen[fmt.Sprintf("comp:%v", CKey{x.GetEntityComponent().GetEntityComponentTypeId(), x.GetEntityComponent().GetEntityId()})] = true
			case *hagallpb.EntityComponentUpdateBroadcast:
				seen[fmt.Sprintf("comp:%v", CKey{x.GetEntityComponent().GetEntityComponentTypeId(), x.GetEntityComponent().GetEntityId()})] = true
			case *hagallpb.EntityComponentDeleteBroadcast:
				seen[fmt.Sprintf("comp:%v", CKey{x.GetEntityComponent().GetEntityComponentTypeId(), x.GetEntityComponent().GetEntityId()})] = true
			}
		}
	}
	for _, k := range keys {
		if seen[k] {
			continue
		}
		// a component, action or asset of an entity whose deletion overtook the snapshot
		var t, e uint32
		if strings.HasPrefix(k, "comp:{") {
			if _, err := fmt.Sscanf(k, "comp:{%d %d}", &t, &e); err == nil && seen[fmt.Sprintf("entc:%d", e)] {
				continue
			}
		}
		if strings.HasPrefix(k, "action:") {
			if _, err := fmt.Sscanf(k, "action:%d/", &e); err == nil && seen[fmt.Sprintf("entc:%d", e)] {
				continue
			}
		}
		if strings.HasPrefix(k, "asset:") {
			if _, err := fmt.Sscanf(k, "asset:%d", &e); err == nil && seen[fmt.Sprintf("entc:%d", e)] {
				continue
			}
		}
		return false
	}
	return true
}

// relayBefore: in its current window the client received a message of type relay before the
// (module state) message of type state.
func (r *runner) relayBefore(label string, relay, state int32) bool {
	for _, c := range r.clients {
		if c.Label != label {
			continue
		}
		for _, m := range c.Since() {
			switch m.Type {
			case state:
				return false
			case relay:
				return true
			}
		}
	}
	return false
}

// relayBeforeState: in its current window the client received a relay of someone else's change
// before the SESSION_STATE of its join.
func (r *runner) relayBeforeState(label string) bool {
	for _, c := range r.clients {
		if c.Label != label {
			continue
		}
		for _, m := range c.Since() {
			switch m.Type {
			case 2:
				return false
			case 5, 7, 10, 13, 15, 26, 29, 31, 103, 203:
				return true
			}
		}
	}
	return false
}

// staleWinner: several actions for one (entity, name) were accepted in one block and what the
// server keeps afterwards is older than one of them: the timestamp check and the store were not
// one step (the last writer, not the latest timestamp, won). Only evaluated when nothing in the
// block can remove actions.
func (r *runner) staleWinner(reqs []*blockReq, kinds []string, before map[int]*MSession) {
	type acc struct {
		sec   int64
		nanos int32
		who   string
	}
	byKey := map[string][]acc{}
	sessOf := map[string]string{}
	for _, q := range reqs {
		if q.closes || q.st.Op == "entity_delete" || q.st.Op == "join" || q.st.Op == "close" || q.st.Op == "switch" {
			return
		}
		if q.p == nil || before[q.st.Conn] == nil {
			continue
		}
		a, ok := q.p.Req.(*vikjapb.EntityActionRequest)
		if !ok || a.GetEntityAction().GetTimestamp() == nil {
			continue
		}
		if findByRID(q.c.Since(), q.p.RID, int32(vikjapb.MsgType_MSG_TYPE_VIKJA_ENTITY_ACTION_RESPONSE)) == nil {
			continue
		}
		ea := a.EntityAction
		k := fmt.Sprintf("%s|%d/%s", before[q.st.Conn].UUID, ea.EntityId, ea.Name)
		sessOf[k] = before[q.st.Conn].UUID
		byKey[k] = append(byKey[k], acc{ea.Timestamp.Seconds, ea.Timestamp.Nanos, q.c.Label})
	}
	var snap map[string]*MSession
	for k, as := range byKey {
		if len(as) < 2 {
			continue
		}
		if snap == nil {
			snap = r.serverSnapshot()
		}
		s := snap[sessOf[k]]
		if s == nil {
			continue
		}
		var e uint32
		var n string
		fmt.Sscanf(k[strings.Index(k, "|")+1:strings.LastIndex(k, "/")], "%d", &e)
		n = k[strings.LastIndex(k, "/")+1:]
		st, ok := s.Actions[e][n]
		if !ok {
			continue
		}
		for _, a := range as {
			if tsLess(st.Sec, st.Nanos, a.sec, a.nanos) {
				d := fmt.Sprintf("concurrent block %v: the server accepted action %d/%s with timestamp %d.%09d from %s, but keeps one with the older timestamp %d.%09d (timestamp check and store are not one step)", kinds, e, n, a.sec, a.nanos, a.who, st.Sec, st.Nanos)
				r.v("C09", "block-stale-winner", "%s", d)
				r.v("C16", "older-action-accepted", "%s", d)
				break
			}
		}
	}
}

// creationRefused: a join that names no session creates one; nothing another connection does at
// the same time can make "not found" (or any refusal) the answer.
func (r *runner) creationRefused(reqs []*blockReq, kinds []string) {
	for _, q := range reqs {
		if q.p == nil || q.c.Ended() {
			continue
		}
		jr, ok := q.p.Req.(*hagallpb.ParticipantJoinRequest)
		if !ok || jr.SessionId != "" {
			continue
		}
		for _, m := range q.c.Since() {
			if e, ok := m.Msg.(*hagallpb.ErrorResponse); ok && m.ReqID == q.p.RID {
				d := fmt.Sprintf("concurrent block %v: %s asked for a new session (join without session id) and was refused with code %v", kinds, q.c.Label, e.Code)
				r.v("C07", "join-answer", "%s", d)
				r.v("C04", "answer-wrong-outcome", "%s", d)
				r.v("C03", "live-session-cut-off", "%s", d)
			}
		}
	}
}

// doubleSuccess: two requests of one block that cannot both succeed under any order did.
func (r *runner) doubleSuccess(reqs []*blockReq, kinds []string) {
	adds := map[CKey][]string{}
	removal := false
	for _, q := range reqs {
		if q.closes || q.st.Op == "entity_delete" || q.st.Op == "comp_delete" || q.st.Op == "join" {
			removal = true
		}
		if q.p == nil {
			continue
		}
		if a, ok := q.p.Req.(*hagallpb.EntityComponentAddRequest); ok {
			if findByRID(q.c.Since(), q.p.RID, 25) != nil {
				k := CKey{a.EntityComponentTypeId, a.EntityId}
				adds[k] = append(adds[k], q.c.Label)
			}
		}
	}
	if removal {
		return
	}
	for k, who := range adds {
		if len(who) > 1 {
			if r.doubleKeys == nil {
				r.doubleKeys = map[string]bool{}
			}
			r.doubleKeys[fmt.Sprintf("comp:%v", k)] = true
			d := fmt.Sprintf("concurrent block %v: component %v was added successfully by %v at the same time (only once per (type, entity))", kinds, k, who)
			r.v("C12", "add-outcome", "%s", d)
			r.v("C09", "block-double-success", "%s", d)
			r.v("C04", "answer-wrong-outcome", "%s", d)
		}
	}
}
