package hsim

import (
	"fmt"
	"math"
	"math/big"

	"github.com/aukilabs/hagall/modules/dagaz"
	"hagallsim/simrt"
)

// The last sentence of C20 (dot, cross, normal, overlap, ray-quad against exact arithmetic) is a
// pure function of its inputs: no schedule, clock or fault in it. It is evaluated on seeded
// vectors against a math/big rational reference as a side oracle and counted separately
// (pure_clause_evaluations); this is input generation, not simulation.

func rat(f float32) *big.Rat { return new(big.Rat).SetFloat64(float64(f)) }

func ratF(r *big.Rat) float64 { f, _ := r.Float64(); return f }

type v3 [3]float32

func (v v3) vec() dagaz.Vector3f { return dagaz.NewVector3f(v[0], v[1], v[2]) }

func primVec(r *simrt.Rand) v3 {
	var v v3
	for i := range v {
		switch r.Intn(5) {
		case 0:
			v[i] = float32(r.Intn(129)-64) * 0.5
		case 1:
			v[i] = (float32(r.Float64()) - 0.5) * 128
		case 2:
			v[i] = 0
		default:
			v[i] = float32(r.Intn(33)-16) * 0.25
		}
	}
	return v
}

func primitiveOracle(seed uint64, n int) (viol []Violation, evals int) {
	r := simrt.NewRand(seed, "c20-prim")
	const eps = 1.0 / (1 << 22)
	bad := func(format string, a ...any) {
		if len(viol) < 3 {
			viol = append(viol, Violation{Prop: "C20", Rule: "primitive-mismatch", Detail: fmt.Sprintf(format, a...)})
		}
	}
	for k := 0; k < n; k++ {
		a, b := primVec(r), primVec(r)
		// dot
		exact := new(big.Rat)
		mag := 0.0
		for i := 0; i < 3; i++ {
			exact.Add(exact, new(big.Rat).Mul(rat(a[i]), rat(b[i])))
			mag += math.Abs(float64(a[i]) * float64(b[i]))
		}
		got := float64(dagaz.VerifDot(a.vec(), b.vec()))
		if math.Abs(got-ratF(exact)) > 8*eps*(mag+1) {
			bad("dot(%v,%v) = %g, exact %g", a, b, got, ratF(exact))
		}
		evals++
		// cross
		cx, cy, cz := dagaz.VerifXYZ(dagaz.Cross(a.vec(), b.vec()))
		ec := [3]*big.Rat{
			new(big.Rat).Sub(new(big.Rat).Mul(rat(a[1]), rat(b[2])), new(big.Rat).Mul(rat(a[2]), rat(b[1]))),
			new(big.Rat).Sub(new(big.Rat).Mul(rat(a[2]), rat(b[0])), new(big.Rat).Mul(rat(a[0]), rat(b[2]))),
			new(big.Rat).Sub(new(big.Rat).Mul(rat(a[0]), rat(b[1])), new(big.Rat).Mul(rat(a[1]), rat(b[0]))),
		}
		for i, g := range []float32{cx, cy, cz} {
			if math.Abs(float64(g)-ratF(ec[i])) > 8*eps*(mag*4+64*64+1) {
				bad("cross(%v,%v)[%d] = %g, exact %g", a, b, i, g, ratF(ec[i]))
			}
		}
		evals++
		// normal of a plane with centre c and half extents e: the normalised cross product of
		// the two edge directions (0,ey,ez) x (ex,ey,0)
		e := v3{float32(1+r.Intn(16)) * 0.25, 0, float32(1+r.Intn(16)) * 0.25}
		if r.Bool(0.3) {
			e[1] = float32(r.Intn(5)) * 0.25
		}
		nx, ny, nz := dagaz.VerifXYZ(dagaz.VerifNormal(a.vec(), e.vec()))
		rx, ry, rz := -float64(e[2])*float64(e[1]), float64(e[2])*float64(e[0]), -float64(e[1])*float64(e[0])
		l := math.Sqrt(rx*rx + ry*ry + rz*rz)
		if l > 0 {
			rx, ry, rz = rx/l, ry/l, rz/l
			if math.Abs(float64(nx)-rx)+math.Abs(float64(ny)-ry)+math.Abs(float64(nz)-rz) > 1e-4 {
				bad("normal(c=%v,e=%v) = (%g,%g,%g), reference (%g,%g,%g)", a, e, nx, ny, nz, rx, ry, rz)
			}
		}
		evals++
		// overlap of two horizontal planes: open intervals on x and z; asserted only when every
		// comparison has a clear margin (the implementation rounds centre +/- extent to float32)
		ea, eb := v3{float32(1+r.Intn(20)) * 0.25, 0, float32(1+r.Intn(20)) * 0.25}, v3{float32(1+r.Intn(20)) * 0.25, 0, float32(1+r.Intn(20)) * 0.25}
		qa := dagaz.Quad{Center: a.vec(), Extents: ea.vec()}
		qb := dagaz.Quad{Center: b.vec(), Extents: eb.vec()}
		clear := true
		ov := true
		for _, ax := range []int{0, 2} {
			minA, maxA := float64(a[ax])-float64(ea[ax]), float64(a[ax])+float64(ea[ax])
			minB, maxB := float64(b[ax])-float64(eb[ax]), float64(b[ax])+float64(eb[ax])
			if math.Abs(minA-maxB) < 1e-3 || math.Abs(maxA-minB) < 1e-3 {
				clear = false
			}
			if !(minA < maxB && maxA > minB) {
				ov = false
			}
		}
		if clear {
			if got := dagaz.VerifOverlap(qa, qb); got != ov {
				bad("overlap(a=%v+-%v, b=%v+-%v) = %v, exact %v", a, ea, b, eb, got, ov)
			}
			evals++
		}
		// ray against a horizontal quad
		q := dagaz.Quad{Center: a.vec(), Extents: ea.vec(), Normal: dagaz.VerifNormal(a.vec(), ea.vec())}
		from, to := primVec(r), primVec(r)
		if r.Bool(0.5) { // aim at the quad
			from = v3{a[0] + (float32(r.Float64())-0.5)*ea[0]*3, a[1] + 1 + float32(r.Intn(8)), a[2] + (float32(r.Float64())-0.5)*ea[2]*3}
			to = v3{from[0] + (float32(r.Float64())-0.5)*2, a[1] - 1 - float32(r.Intn(8)), from[2] + (float32(r.Float64())-0.5)*2}
		}
		dy := float64(to[1]) - float64(from[1])
		if math.Abs(dy) > 1e-3 {
			t := (float64(a[1]) - float64(from[1])) / dy
			hx := float64(from[0]) + t*(float64(to[0])-float64(from[0]))
			hz := float64(from[2]) + t*(float64(to[2])-float64(from[2]))
			mx := math.Min(math.Abs(hx-(float64(a[0])-float64(ea[0]))), math.Abs(hx-(float64(a[0])+float64(ea[0]))))
			mz := math.Min(math.Abs(hz-(float64(a[2])-float64(ea[2]))), math.Abs(hz-(float64(a[2])+float64(ea[2]))))
			if mx > 1e-2 && mz > 1e-2 && math.Abs(t) > 1e-3 && math.Abs(t-1) > 1e-3 {
				want := t >= 0 && t <= 1 && math.Abs(hx-float64(a[0])) < float64(ea[0]) && math.Abs(hz-float64(a[2])) < float64(ea[2])
				hit, gt := dagaz.IntersectQuad(dagaz.Ray{From: from.vec(), To: to.vec()}, q)
				if hit != want {
					bad("ray %v->%v against quad c=%v e=%v: hit=%v, exact %v (t=%g)", from, to, a, ea, hit, want, t)
				} else if hit && math.Abs(float64(gt)-t) > 1e-3 {
					bad("ray %v->%v against quad c=%v e=%v: t=%g, exact %g", from, to, a, ea, gt, t)
				}
				evals++
			}
		}
	}
	return viol, evals
}
