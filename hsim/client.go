package hsim

import (
	"bytes"
	"fmt"
	"strconv"
	"time"

	"github.com/aukilabs/hagall-common/messages/dagazpb"
	"github.com/aukilabs/hagall-common/messages/hagallpb"
	"github.com/aukilabs/hagall-common/messages/odalpb"
	"github.com/aukilabs/hagall-common/messages/vikjapb"
	hwebsocket "github.com/aukilabs/hagall/websocket"
	"google.golang.org/protobuf/proto"
	"google.golang.org/protobuf/reflect/protoreflect"
	"google.golang.org/protobuf/types/known/timestamppb"
	"hagallsim/simrt"
)

// RecvMsg is one hagall message received by a simulated client.
type RecvMsg struct {
	At    time.Duration
	Idx   int
	Type  int32
	Raw   []byte
	Msg   proto.Message // decoded by type; nil when the type is unknown or the body undecodable
	ReqID uint32
}

// Client is an event-driven state machine executed by the scheduler goroutine.
type Client struct {
	w     *World
	ID    int
	Label string
	opts  ConnectOpts
	conn  *Conn
	task  *simrt.Task
	mask  *simrt.Rand

	hsBuf  []byte
	hsDone bool
	Status int // HTTP status of the upgrade (101 when accepted)

	parser frameParser
	frag   []byte
	Msgs   []*RecvMsg

	reading    bool
	pending    [][]byte
	finPending bool
	ServerFIN  bool
	CloseFrame bool
	sentFIN    bool
	reset      bool

	nextReq uint32
	ridBase int // scenario connection index + 1 (0 for connections outside the request-id scheme)

	// server side observations
	rt              *hwebsocket.RealtimeHandler
	wrapped         *countingHandler
	InnerEntered    int
	HandleReturned  bool
	ServeReturned   bool
	ServePanic      string
	ServePanicStack string
	Disconnects     int
	DisconnectErr   string

	View   *View
	OnMsg  func(*RecvMsg)
	Stream []*streamItem
	subs   map[uint32]bool          // component types the client subscribed to, by its own answered requests
	own    map[uint32]proto.Message // requests whose answer will tell the client what it changed

	mark int // index into Msgs: start of the current observation window
}

func (c *Client) String() string { return c.Label }

// Ended reports that the connection is over from the client's point of view.
func (c *Client) Ended() bool { return c.ServerFIN || c.reset }

// drain consumes pending chunks while the client is reading.
func (c *Client) drain() {
	if !c.reading {
		return
	}
	for _, ch := range c.pending {
		c.conn.inflight -= len(ch)
		c.onBytes(ch)
	}
	c.pending = nil
	c.conn.wakeWrite()
	if c.finPending {
		c.finPending = false
		c.ServerFIN = true
		c.w.sim.Logf("%s <FIN", c.Label)
	}
}

// Stall / Resume model a client that stops reading (backpressure towards the server).
func (c *Client) Stall()  { c.reading = false; c.w.sim.Stats["fault.client_read_stall"]++ }
func (c *Client) Resume() { c.reading = true; c.drain() }

func (c *Client) onBytes(b []byte) {
	if !c.hsDone {
		c.hsBuf = append(c.hsBuf, b...)
		i := bytes.Index(c.hsBuf, []byte("\r\n\r\n"))
		if i < 0 {
			return
		}
		head := c.hsBuf[:i]
		rest := c.hsBuf[i+4:]
		if len(head) >= 12 {
			c.Status, _ = strconv.Atoi(string(head[9:12]))
		}
		c.hsDone = true
		c.w.sim.Logf("%s <HTTP %d", c.Label, c.Status)
		b = rest
		c.hsBuf = nil
		if len(b) == 0 {
			return
		}
	}
	for _, f := range c.parser.feed(b) {
		switch f.op {
		case opClose:
			c.CloseFrame = true
			c.w.sim.Logf("%s <close", c.Label)
		case opPing, opPong:
			c.w.sim.Logf("%s <ctl %d", c.Label, f.op)
		case opBin, opText, opCont:
			c.frag = append(c.frag, f.payload...)
			if f.fin {
				c.onMessage(c.frag)
				c.frag = nil
			}
		}
	}
}

func (c *Client) onMessage(raw []byte) {
	var env hagallpb.Msg
	m := &RecvMsg{At: c.w.sim.Now(), Idx: len(c.Msgs), Raw: append([]byte(nil), raw...)}
	if err := proto.Unmarshal(raw, &env); err != nil {
		m.Type = -1
	} else {
		m.Type = int32(env.Type)
		if pm := newMsgOfType(m.Type); pm != nil {
			if err := proto.Unmarshal(raw, pm); err == nil {
				m.Msg = pm
				m.ReqID = requestID(pm)
			}
		}
	}
	c.Msgs = append(c.Msgs, m)
	if !isSyncClock(m.Type) {
		c.w.lastActivity = c.w.sim.Now()
		c.w.sim.Logf("%s <%d rid=%d n=%d", c.Label, m.Type, m.ReqID, len(raw))
	}
	c.w.ledger.observe(c, m)
	c.View.apply(m)
	c.recordStream(m)
	if m.ReqID != 0 && m.Type != 0 {
		if req, ok := c.own[m.ReqID]; ok {
			// the client learns the effect of its own request from the answer, in stream order
			delete(c.own, m.ReqID)
			c.View.applyOwn(req, []*RecvMsg{m}, m.ReqID)
		}
	}
	if c.OnMsg != nil {
		c.OnMsg(m)
	}
}

func requestID(pm proto.Message) uint32 {
	fd := pm.ProtoReflect().Descriptor().Fields().ByNumber(1337)
	if fd == nil {
		return 0
	}
	return uint32(pm.ProtoReflect().Get(fd).Uint())
}

func newMsgOfType(t int32) proto.Message {
	switch t {
	case 0:
		return &hagallpb.ErrorResponse{}
	case 1:
		return &hagallpb.SyncClock{}
	case 2:
		return &hagallpb.SessionState{}
	case 4:
		return &hagallpb.ParticipantJoinResponse{}
	case 5:
		return &hagallpb.ParticipantJoinBroadcast{}
	case 7:
		return &hagallpb.ParticipantLeaveBroadcast{}
	case 9:
		return &hagallpb.EntityAddResponse{}
	case 10:
		return &hagallpb.EntityAddBroadcast{}
	case 12:
		return &hagallpb.EntityDeleteResponse{}
	case 13:
		return &hagallpb.EntityDeleteBroadcast{}
	case 15:
		return &hagallpb.EntityUpdatePoseBroadcast{}
	case 17:
		return &hagallpb.CustomMessageBroadcast{}
	case 19:
		return &hagallpb.EntityComponentTypeAddResponse{}
	case 21:
		return &hagallpb.EntityComponentTypeGetNameResponse{}
	case 23:
		return &hagallpb.EntityComponentTypeGetIdResponse{}
	case 25:
		return &hagallpb.EntityComponentAddResponse{}
	case 26:
		return &hagallpb.EntityComponentAddBroadcast{}
	case 28:
		return &hagallpb.EntityComponentDeleteResponse{}
	case 29:
		return &hagallpb.EntityComponentDeleteBroadcast{}
	case 31:
		return &hagallpb.EntityComponentUpdateBroadcast{}
	case 33:
		return &hagallpb.EntityComponentListResponse{}
	case 35:
		return &hagallpb.EntityComponentTypeSubscribeResponse{}
	case 37:
		return &hagallpb.EntityComponentTypeUnsubscribeResponse{}
	case 38, 39:
		return &hagallpb.Response{}
	case 41:
		return &hagallpb.ReceiptResponse{}
	case 43:
		return &hagallpb.SignedLatencyResponse{}
	case 100:
		return &vikjapb.State{}
	case 102:
		return &vikjapb.EntityActionResponse{}
	case 103:
		return &vikjapb.EntityActionBroadcast{}
	case 200:
		return &odalpb.State{}
	case 202:
		return &odalpb.AssetInstanceAddResponse{}
	case 203:
		return &odalpb.AssetInstanceAddBroadcast{}
	case 302:
		return &dagazpb.DagazGetGroundPlaneResponse{}
	case 304:
		return &dagazpb.DagazGetRegionResponse{}
	case 306:
		return &dagazpb.DagazGetDebugInfoResponse{}
	}
	return nil
}

// ---- sending

func (c *Client) NextReqID() uint32 {
	c.nextReq++
	base := c.ridBase
	if base == 0 {
		base = c.ID + 1
	}
	return uint32(base)*100000 + c.nextReq
}

func (c *Client) maskKey() *[4]byte {
	v := c.mask.Uint64()
	return &[4]byte{byte(v), byte(v >> 8), byte(v >> 16), byte(v >> 24)}
}

// SendRaw sends bytes as they are.
func (c *Client) SendRaw(b []byte) {
	if c.sentFIN || c.reset {
		return
	}
	c.w.lastActivity = c.w.sim.Now()
	c.w.sendToServer(c.conn, b)
}

// SendFrame sends one binary frame holding payload.
func (c *Client) SendPayload(payload []byte) {
	c.SendRaw(encodeFrame(opBin, true, payload, c.maskKey(), -1))
}

// Send marshals and sends a protobuf message in one masked binary frame.
func (c *Client) Send(m proto.Message) {
	b, err := proto.Marshal(m)
	if err != nil {
		panic(err)
	}
	c.w.sim.Logf("%s >%d n=%d", c.Label, msgTypeOf(m), len(b))
	if rid := requestID(m); rid != 0 {
		if c.own == nil {
			c.own = map[uint32]proto.Message{}
		}
		c.own[rid] = m
		if sr, ok := m.(*hagallpb.EntityComponentTypeSubscribeRequest); ok {
			// from the moment it asks, a client must be prepared for notifications: the server may
			// relay one between registering the subscription and answering the request
			if c.subs == nil {
				c.subs = map[uint32]bool{}
			}
			c.subs[sr.EntityComponentTypeId] = true
		}
	} else {
		c.View.applyOwnUnanswered(m)
	}
	c.SendPayload(b)
}

func msgTypeOf(m proto.Message) int32 {
	fd := m.ProtoReflect().Descriptor().Fields().ByNumber(1)
	if fd == nil || fd.Kind() != protoreflect.EnumKind {
		return -1
	}
	return int32(m.ProtoReflect().Get(fd).Enum())
}

// CloseFIN closes the client's side at a message boundary.
func (c *Client) CloseFIN() {
	if c.sentFIN || c.reset {
		return
	}
	c.sentFIN = true
	c.w.sim.Logf("%s >FIN", c.Label)
	c.w.sim.Stats["fault.client_fin"]++
	c.w.clientFIN(c.conn)
}

// CloseFull closes the socket while unread data is pending: the peer's writes are reset.
func (c *Client) CloseFull() {
	if c.sentFIN || c.reset {
		return
	}
	c.sentFIN = true
	c.w.sim.Logf("%s >FIN+discard", c.Label)
	c.w.sim.Stats["fault.client_close_with_unread_data"]++
	c.w.clientFIN(c.conn)
	conn := c.conn
	c.w.sim.After(c.w.latency(), "net>s.rst", func() {
		conn.outErr = errReset
		conn.wakeWrite()
	})
	c.pending = nil
	c.reset = true
}

// Reset aborts the connection: both directions fail, undelivered data is lost.
func (c *Client) Reset() {
	if c.reset {
		return
	}
	c.reset = true
	c.w.sim.Logf("%s >RST", c.Label)
	c.w.sim.Stats["fault.client_rst"]++
	c.w.clientRST(c.conn)
}

func now() *timestamppb.Timestamp { return timestamppb.Now() }

// window helpers: messages received since the last Mark().
func (c *Client) Mark()             { c.mark = len(c.Msgs) }
func (c *Client) Since() []*RecvMsg { return c.Msgs[c.mark:] }

func (c *Client) NonClock(ms []*RecvMsg) []*RecvMsg {
	var out []*RecvMsg
	for _, m := range ms {
		if !isSyncClock(m.Type) {
			out = append(out, m)
		}
	}
	return out
}

func (m *RecvMsg) String() string {
	if m.Msg == nil {
		return fmt.Sprintf("type=%d raw=%d", m.Type, len(m.Raw))
	}
	return fmt.Sprintf("%s{%v}", m.Msg.ProtoReflect().Descriptor().Name(), m.Msg)
}
