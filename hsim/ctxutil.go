package hsim

import (
	"context"
	"net/http"
)

// context_AfterFunc closes ch when the request's context ends.
func context_AfterFunc(req *http.Request, ch chan struct{}) func() bool {
	return context.AfterFunc(req.Context(), func() { close(ch) })
}
