package hsim

import (
	"fmt"
	"testing"

	"github.com/aukilabs/hagall-common/messages/hagallpb"
	"google.golang.org/protobuf/proto"
)

// Differential re-execution (C03 noninterference, C17 flag filtering): the same history is run
// twice under different configurations and the per-connection streams are compared message by
// message. Meaningful only because a run is a pure function of its scenario.

type streamItem struct {
	Sym  string // symbolic session the receiver was in when the message arrived
	Type int32
	Key  string // normalised, deterministic encoding
	Text string
}

func normForDiff(m proto.Message) proto.Message {
	c := norm(m, true)
	if j, ok := c.(*hagallpb.ParticipantJoinResponse); ok {
		j.SessionId, j.SessionUuid = "", ""
	}
	return c
}

func (c *Client) recordStream(m *RecvMsg) {
	if isSyncClock(m.Type) || m.Msg == nil {
		return
	}
	n := normForDiff(m.Msg)
	b, _ := proto.MarshalOptions{Deterministic: true}.Marshal(n)
	sym := c.w.symOf[c.View.UUID]
	if _, ok := m.Msg.(*hagallpb.ParticipantJoinResponse); ok {
		sym = "" // resolved by the runner once the join has been interpreted
	}
	c.Stream = append(c.Stream, &streamItem{Sym: sym, Type: m.Type, Key: string(b), Text: short(n)})
}

// twin builds the scenario of the second execution from what the first one actually sent.
func twinOf(sc *Scenario, res *Result, keep func(i int, st *Step) bool, flags []string) *Scenario {
	t := &Scenario{Prop: sc.Prop, Family: "twin", Seed: sc.Seed, World: sc.World, NoOracles: true, NoFinalClose: sc.NoFinalClose}
	t.World.Flags = flags
	for i := range sc.Steps {
		st := sc.Steps[i]
		if !keep(i, &st) {
			continue
		}
		if raw, ok := res.Sent[i]; ok && st.Op != "join" {
			t.Steps = append(t.Steps, Step{Conn: st.Conn, Op: "rawreq", Raw: raw})
			continue
		}
		if isRequestOp(st.Op) && st.Op != "join" {
			continue // was skipped in the first execution
		}
		if st.Op == "join" {
			st.RID = res.RIDs[i]
		}
		t.Steps = append(t.Steps, st)
	}
	return t
}

func compareStreams(a, b []*streamItem) string {
	for i := 0; i < len(a) || i < len(b); i++ {
		switch {
		case i >= len(a):
			return fmt.Sprintf("message %d: only the second execution has %s", i, b[i].Text)
		case i >= len(b):
			return fmt.Sprintf("message %d: only the first execution has %s", i, a[i].Text)
		case a[i].Key != b[i].Key:
			return fmt.Sprintf("message %d differs: %s versus %s", i, a[i].Text, b[i].Text)
		}
	}
	return ""
}

func filterStream(s []*streamItem, f func(*streamItem) bool) []*streamItem {
	var out []*streamItem
	for _, x := range s {
		if f(x) {
			out = append(out, x)
		}
	}
	return out
}

// runDiff is called by RunScenario after the main execution.
func runDiff(t *testing.T, sc *Scenario, res *Result) {
	switch sc.Diff {
	case "flags":
		// main execution: flags F. Twin: no flag. stream_F must equal filter_F(stream_0).
		tw := twinOf(sc, res, func(int, *Step) bool { return true }, nil)
		r2 := RunScenario(t, tw)
		res.Triggers["diff_runs"]++
		if r2.Failure != "" {
			res.Failure = "twin: " + r2.Failure
			return
		}
		dis := disabledTypes(sc.World.Flags)
		for label, sf := range res.Streams {
			s0 := filterStream(r2.Streams[label], func(x *streamItem) bool { return !dis[x.Type] })
			if d := compareStreams(sf, s0); d != "" {
				res.Violations = append(res.Violations, Violation{Prop: "C17", Rule: "flag-stream-diff", Step: len(sc.Steps),
					Detail: fmt.Sprintf("connection %s under flags %v (first) versus the flag-free execution filtered by those flags (second): %s", label, sc.World.Flags, d)})
				return
			}
		}
		for label := range r2.Streams {
			if _, ok := res.Streams[label]; !ok && len(filterStream(r2.Streams[label], func(x *streamItem) bool { return !dis[x.Type] })) > 0 {
				res.Violations = append(res.Violations, Violation{Prop: "C17", Rule: "flag-stream-diff", Step: len(sc.Steps), Detail: "connection " + label + " received messages only in the flag-free execution"})
				return
			}
		}
		if res.FinalState != r2.FinalState {
			res.Violations = append(res.Violations, Violation{Prop: "C17", Rule: "flag-state-diff", Step: len(sc.Steps),
				Detail: fmt.Sprintf("the server's final state differs: under flags %v: %s; without flags: %s", sc.World.Flags, res.FinalState, r2.FinalState)})
		}
	case "isolation":
		// main execution: the whole history. Twin: only what touches the observed session S0.
		tw := twinOf(sc, res, func(i int, st *Step) bool { return res.InS0[i] }, sc.World.Flags)
		if len(tw.Steps) == len(sc.Steps) {
			return // nothing to remove
		}
		r2 := RunScenario(t, tw)
		res.Triggers["diff_runs"]++
		res.Triggers["diff_removed_steps"] += len(sc.Steps) - len(tw.Steps)
		if r2.Failure != "" {
			res.Failure = "twin: " + r2.Failure
			return
		}
		inS0 := func(x *streamItem) bool { return x.Sym == "S0" }
		for label, s := range res.Streams {
			a := filterStream(s, inS0)
			b := filterStream(r2.Streams[label], inS0)
			if d := compareStreams(a, b); d != "" {
				res.Violations = append(res.Violations, Violation{Prop: "C03", Rule: "noninterference-diff", Step: len(sc.Steps),
					Detail: fmt.Sprintf("what %s received as a member of the observed session with the other sessions' traffic (first) and without it (second): %s", label, d)})
				return
			}
		}
	}
}
