package hsim

import (
	"fmt"
	"sort"
	"time"

	"hagallsim/simrt"
)

// Profile steers the history generator (swarm style: most knobs are re-drawn per run).
type Profile struct {
	Name            string
	MinSteps        int
	MaxSteps        int
	MaxConns        int
	MaxSessions     int
	W               map[string]int // op weights
	PBurst          float64
	PBlock          float64
	PIdleOut        float64 // share of the departures that are idle timeouts (the world then has a 30 s idle timeout)
	MinUnlockYield  float64 // lower bound of the unlock-yield probability in non-sequential worlds
	NoJitter        float64 // share of the worlds without network jitter (blocks can then be aligned with frame ticks)
	StallBoost      float64 // share of the worlds in which tasks are stalled often (1 step in 100, up to 5 ms)
	ProbeAfterBlock float64 // probability that a fresh connection joins (and leaves) right after a block
	PFocus          float64 // share of the blocks whose requests all meet on one entity / component / action
	BlockOps        []string
	PNoPose         float64 // pose/entity_add without a pose sub-message
	PClose          float64
	PProbe          float64
	Policies        []string
	AllModules      bool
	SeqOnly         bool
	MinMembers      int // try to get that many members into S0 early
	Flags           bool
	PEndgame        float64 // share of the blocks in which a whole session leaves at once
	PDie            float64 // share of the departures that are protocol errors instead of closes
}

var baseWeights = map[string]int{
	"entity_add": 10, "entity_delete": 5, "pose": 8, "custom": 6,
	"type_add": 4, "type_get_name": 1, "type_get_id": 1,
	"comp_add": 6, "comp_delete": 3, "comp_update": 5, "comp_list": 2,
	"subscribe": 4, "unsubscribe": 2, "ping": 1, "stray_pong": 1,
	"action": 5, "asset_add": 4, "quad_sample": 1, "get_region": 1, "get_ground": 1, "debug_info": 1,
	"switch": 2,
}

func weights(over map[string]int) map[string]int {
	w := map[string]int{}
	for k, v := range baseWeights {
		w[k] = v
	}
	for k, v := range over {
		w[k] = v
	}
	return w
}

var opOrder = []string{"entity_add", "entity_delete", "pose", "custom", "type_add", "type_get_name", "type_get_id", "comp_add", "comp_delete",
	"comp_update", "comp_list", "subscribe", "unsubscribe", "ping", "stray_pong", "action", "asset_add", "quad_sample", "get_region",
	"get_ground", "debug_info", "switch"}

type genState struct {
	r       *simrt.Rand
	p       *Profile
	joined  map[int]string
	dead    map[int]bool
	nConns  int
	counter int
	steps   []Step
	nextBlk int
	sessN   int
	// recipient list of each connection's last targeted custom message
	lastRcpts map[int][]Ref
}

func (g *genState) pickWeighted() string {
	tot := 0
	for _, k := range opOrder {
		tot += g.p.W[k]
	}
	if tot == 0 {
		return "ping"
	}
	x := g.r.Intn(tot)
	for _, k := range opOrder {
		x -= g.p.W[k]
		if x < 0 {
			return k
		}
	}
	return "ping"
}

func (g *genState) pick(choices []string, w []int) string {
	tot := 0
	for _, x := range w {
		tot += x
	}
	x := g.r.Intn(tot)
	for i, c := range choices {
		x -= w[i]
		if x < 0 {
			return c
		}
	}
	return choices[0]
}

func (g *genState) entRef(own int) Ref {
	k := g.pick([]string{"own", "other", "any", "gone", "unknown", "zero", "foreign"}, []int{own, 15, 10, 8, 4, 3, 3})
	return Ref{K: k, I: g.r.Intn(4)}
}

func (g *genState) typRef() Ref {
	k := g.pick([]string{"reg", "exact", "unknown", "zero"}, []int{70, 15, 8, 7})
	return Ref{K: k, I: g.r.Intn(3)}
}

var bodyLens = []int{0, 1, 5, 100, 1000, 10239, 10240, 10241, 10300, 20000}

func (g *genState) makeOp(conn int, op string) Step {
	g.counter++
	st := Step{Conn: conn, Op: op}
	r := g.r
	switch op {
	case "entity_add":
		st.Persist = r.Bool(0.35)
		st.Flag = int32(r.Intn(2))
		st.NoPose = r.Bool(0.15)
		st.Seq = float32(g.counter)
	case "entity_delete":
		st.Ent = g.entRef(55)
	case "pose":
		st.Ent = g.entRef(70)
		st.Seq = float32(g.counter)
		st.NoPose = r.Bool(g.p.PNoPose)
		if r.Bool(0.12) {
			st.Variant = "repeat"
		}
	case "custom":
		if r.Bool(0.7) {
			st.BodyLen = bodyLens[r.Intn(len(bodyLens))]
		} else {
			st.BodyLen = r.Intn(3000)
		}
		if r.Bool(0.03) {
			st.BodyLen = 65536
		}
		st.Fill = byte(g.counter)
		if prev, ok := g.lastRcpts[conn]; ok && r.Bool(0.3) {
			// the very recipient list this connection used last time (possibly in another session)
			st.Rcpts = append([]Ref(nil), prev...)
		} else if r.Bool(0.5) {
			n := 1 + r.Intn(4)
			for i := 0; i < n; i++ {
				k := g.pick([]string{"member", "self", "stranger", "gone", "zero"}, []int{60, 12, 12, 8, 8})
				ref := Ref{K: k, I: r.Intn(4)}
				st.Rcpts = append(st.Rcpts, ref)
				if r.Bool(0.2) {
					st.Rcpts = append(st.Rcpts, ref) // duplicate
				}
			}
		}
		if len(st.Rcpts) > 0 {
			if g.lastRcpts == nil {
				g.lastRcpts = map[int][]Ref{}
			}
			g.lastRcpts[conn] = st.Rcpts
		}
	case "type_add":
		st.Name = typeNames[r.Intn(3)]
		if r.Bool(0.06) {
			st.Name = ""
		}
	case "type_get_name":
		st.Typ = g.typRef()
	case "type_get_id":
		st.Name = typeNames[r.Intn(4)]
		if r.Bool(0.08) {
			st.Name = ""
		}
	case "comp_add":
		st.Typ, st.Ent, st.Data = g.typRef(), g.entRef(40), fmt.Sprintf("d%d", g.counter)
		if st.Ent.K == "own" || st.Ent.K == "other" {
			st.Ent.K = "any"
		}
		if r.Bool(0.1) {
			st.Typ = Ref{K: "comp", I: r.Intn(5)} // an existing component: conflict
		}
	case "comp_delete":
		st.Typ, st.Ent = g.typRef(), g.entRef(40)
		if r.Bool(0.6) {
			st.Typ = Ref{K: "comp", I: r.Intn(5)}
		}
	case "comp_update":
		st.Typ, st.Ent, st.Data = g.typRef(), g.entRef(40), fmt.Sprintf("u%d", g.counter)
		if r.Bool(0.75) {
			st.Typ = Ref{K: "comp", I: r.Intn(5)}
		}
	case "comp_list", "subscribe", "unsubscribe":
		st.Typ = g.typRef()
	case "action":
		st.Ent = g.entRef(30)
		st.Name = g.pick([]string{"open", "spin", ""}, []int{50, 42, 8})
		st.TSKind = g.pick([]string{"now", "equal", "older", "older_ns", "future", "far_future", "zero", "negative", "nil"}, []int{40, 12, 16, 6, 6, 8, 5, 5, 7})
		st.Data = fmt.Sprintf("a%d", g.counter)
		st.N = r.Intn(5)
		if r.Bool(0.04) {
			st.Variant = "nil_action"
		}
	case "asset_add":
		st.Ent = g.entRef(65)
		st.Name = fmt.Sprintf("asset-%d", g.counter)
		if r.Bool(0.07) {
			st.Name = ""
		}
	case "quad_sample":
		n := 1 + r.Intn(3)
		for i := 0; i < n; i++ {
			st.Quads = append(st.Quads, QuadSpec{C: [3]float32{float32(r.Intn(9) - 4), float32(r.Intn(3)), float32(r.Intn(9) - 4)}, E: [3]float32{0.25 + float32(r.Intn(4))*0.5, 0, 0.25 + float32(r.Intn(4))*0.5}})
		}
	case "get_region":
		st.F = []float32{-10, 0, -10, 10, 0, 10}
	case "get_ground":
		x, z := float32(r.Intn(9)-4), float32(r.Intn(9)-4)
		st.F = []float32{x, 5, z, x, -5, z}
	}
	return st
}

func (g *genState) sessName() string { return fmt.Sprintf("S%d", g.r.Intn(g.sessN)) }

func (g *genState) join(conn int, sess string) {
	g.steps = append(g.steps, Step{Conn: conn, Op: "join", Sess: sess})
	if sess != "unknown" && sess != "garbage" && sess != "current" {
		g.joined[conn] = sess
	}
}

func (g *genState) liveJoined() []int {
	var out []int
	for c := 0; c < g.nConns; c++ {
		if g.joined[c] != "" && !g.dead[c] {
			out = append(out, c)
		}
	}
	return out
}

func (g *genState) freshConn() (int, bool) {
	for c := 0; c < g.p.MaxConns; c++ {
		if g.joined[c] == "" && !g.dead[c] {
			if c >= g.nConns {
				g.nConns = c + 1
			}
			return c, true
		}
	}
	return 0, false
}

var burstImmediate = []string{"entity_add", "custom", "type_add", "ping", "comp_add", "action", "asset_add", "subscribe", "comp_list", "entity_delete"}

// GenHistory is a pure function of (seed, profile).
func GenHistory(seed uint64, p *Profile) *Scenario {
	r := simrt.NewRand(seed, "gen:"+p.Name)
	g := &genState{r: r, p: p, joined: map[int]string{}, dead: map[int]bool{}}
	g.sessN = 1 + r.Intn(p.MaxSessions)
	startConns := 2 + r.Intn(max(1, p.MaxConns-2))
	if startConns > p.MaxConns {
		startConns = p.MaxConns
	}
	g.nConns = startConns
	nSteps := r.Range(p.MinSteps, p.MaxSteps)

	for c := 0; c < p.MinMembers && c < p.MaxConns; c++ {
		g.join(c, "S0")
		if c >= g.nConns {
			g.nConns = c + 1
		}
	}
	for guard := 0; len(g.steps) < nSteps && guard < nSteps*20; guard++ {
		c := r.Intn(g.nConns)
		if g.dead[c] {
			if nc, ok := g.freshConn(); ok && r.Bool(0.5) {
				c = nc
			} else {
				continue
			}
		}
		if g.joined[c] == "" {
			if r.Bool(0.85) {
				s := g.sessName()
				x := r.Float64()
				switch {
				case x < 0.04:
					s = "unknown"
				case x < 0.06:
					s = "garbage"
				case x < 0.10:
					s = "new"
				}
				g.join(c, s)
			} else {
				// a session-scoped request from a connection that is in no session
				g.steps = append(g.steps, g.makeOp(c, g.pickWeighted()))
				if g.steps[len(g.steps)-1].Op == "switch" {
					g.steps = g.steps[:len(g.steps)-1]
				} else {
					g.dead[c] = true // the server is allowed to end it
				}
			}
			continue
		}
		x := r.Float64()
		switch {
		case x < p.PClose:
			op := "close"
			if r.Bool(0.3) {
				op = "rst"
			}
			st := Step{Conn: c, Op: op}
			if g.p.PIdleOut > 0 && r.Bool(g.p.PIdleOut) {
				st = Step{Conn: c, Op: "idle_out"}
			} else if r.Bool(g.p.PDie) {
				st = Step{Conn: c, Op: "die", Variant: []string{"unmasked", "text", "no_timestamp", "bad_body", "empty_receipt", "not_protobuf", "close_frame"}[r.Intn(7)]}
			}
			g.steps = append(g.steps, st)
			g.dead[c] = true
			g.joined[c] = ""
			continue
		case x < p.PClose+p.PProbe:
			if pc, ok := g.freshConn(); ok {
				g.join(pc, g.joined[c])
				if r.Bool(0.6) {
					g.steps = append(g.steps, Step{Conn: pc, Op: "close"})
					g.dead[pc] = true
					g.joined[pc] = ""
				}
			}
			continue
		case x < p.PClose+p.PProbe+p.PBurst:
			n := 2 + r.Intn(5)
			if r.Bool(0.5) {
				tail := r.Intn(10) // 0-1: switch, 2: close, 3-4: delete the entity, with updates still pending
				for i := 0; i < n; i++ {
					op := "pose"
					if r.Bool(0.3) {
						op = "comp_update"
					}
					st := g.makeOp(c, op)
					st.NoPose = false
					st.Pipe = i < n-1 || tail < 5
					if op == "pose" {
						st.Ent = Ref{K: "own", I: r.Intn(2)}
					}
					if tail < 2 && r.Bool(0.5) {
						// ids that mean something in another session (the one about to be joined,
						// perhaps) and nothing in this one
						st.Ent = Ref{K: "foreign", I: r.Intn(3)}
						if op == "comp_update" {
							st.Typ = Ref{K: "lit", I: 1 + r.Intn(2)}
						}
					}
					g.steps = append(g.steps, st)
				}
				switch {
				case tail < 2:
					g.join(c, g.sessName())
				case tail == 2:
					g.steps = append(g.steps, Step{Conn: c, Op: "close"})
					g.dead[c] = true
					g.joined[c] = ""
				case tail < 5:
					g.steps = append(g.steps, Step{Conn: c, Op: "entity_delete", Ent: Ref{K: "own", I: r.Intn(2)}})
				}
			} else {
				for i := 0; i < n; i++ {
					st := g.makeOp(c, burstImmediate[r.Intn(len(burstImmediate))])
					st.Pipe = i < n-1
					g.steps = append(g.steps, st)
				}
			}
			continue
		case x < p.PClose+p.PProbe+p.PBurst+p.PBlock:
			lj := g.liveJoined()
			k := 2 + r.Intn(2)
			if len(lj) < 2 {
				continue
			}
			if p.PEndgame > 0 && r.Bool(p.PEndgame) {
				// every member of one session leaves at the same instant while a fresh connection
				// creates a session (id reuse) and another joins the dying one by id
				bySess := map[string][]int{}
				for _, c2 := range lj {
					bySess[g.joined[c2]] = append(bySess[g.joined[c2]], c2)
				}
				var names []string
				for n2, m := range bySess {
					if len(m) <= 3 && n2 != "new" {
						names = append(names, n2)
					}
				}
				sort.Strings(names)
				if len(names) > 0 {
					victim := names[r.Intn(len(names))]
					g.nextBlk++
					for _, c2 := range bySess[victim] {
						g.steps = append(g.steps, Step{Conn: c2, Op: "close", Block: g.nextBlk})
						g.dead[c2] = true
						g.joined[c2] = ""
					}
					for k2 := 0; k2 < 1+r.Intn(2); k2++ {
						if nc, ok := g.freshConn(); ok {
							g.steps = append(g.steps, Step{Conn: nc, Op: "join", Sess: "new", Block: g.nextBlk})
							g.joined[nc] = "new"
						}
					}
					byID := -1
					if nc, ok := g.freshConn(); ok && r.Bool(0.5) {
						g.steps = append(g.steps, Step{Conn: nc, Op: "join", Sess: victim, Block: g.nextBlk})
						g.joined[nc] = victim
						byID = nc
					}
					// ... and a member of another session switches into the dying one: refused or
					// accepted, it must end up in exactly one session and its old session must be
					// told exactly what happened
					var outsiders []int
					for _, c2 := range lj {
						if g.joined[c2] != victim && g.joined[c2] != "" && !g.dead[c2] {
							outsiders = append(outsiders, c2)
						}
					}
					if len(outsiders) > 0 && r.Bool(0.5) {
						sw := outsiders[r.Intn(len(outsiders))]
						g.steps = append(g.steps, Step{Conn: sw, Op: "join", Sess: victim, Block: g.nextBlk})
						g.joined[sw] = victim
					}
					if byID >= 0 && r.Bool(0.5) {
						// wherever the join by id ended up (refused, or in a session that took over
						// the id), what it attaches there must become part of that session's state
						st := g.makeOp(byID, "entity_add")
						st.NoPose = false
						g.steps = append(g.steps, st)
						for _, op := range []string{"action", "asset_add", "quad_sample"} {
							if r.Bool(0.6) {
								st := g.makeOp(byID, op)
								st.Ent = Ref{K: "own"}
								g.steps = append(g.steps, st)
							}
						}
					}
					continue
				}
			}
			if p.PFocus > 0 && r.Bool(p.PFocus) && g.focusBlock(lj, 2+r.Intn(3)) {
				continue
			}
			g.nextBlk++
			perm := r.Perm(len(lj))
			used := 0
			for _, pi := range perm {
				if used >= k {
					break
				}
				bc := lj[pi]
				op := g.p.BlockOps[r.Intn(len(g.p.BlockOps))]
				var st Step
				switch op {
				case "close":
					st = Step{Conn: bc, Op: "close"}
					g.dead[bc] = true
					g.joined[bc] = ""
				case "switch":
					st = Step{Conn: bc, Op: "join", Sess: g.sessName()}
					g.joined[bc] = st.Sess
				case "newjoin":
					nc, ok := g.freshConn()
					if !ok {
						continue
					}
					st = Step{Conn: nc, Op: "join", Sess: "new"}
					g.joined[nc] = "new"
				case "joiner":
					nc, ok := g.freshConn()
					if !ok {
						continue
					}
					st = Step{Conn: nc, Op: "join", Sess: g.joined[bc]}
					g.joined[nc] = st.Sess
				default:
					st = g.makeOp(bc, op)
					st.NoPose = false
					if op == "type_add" {
						st.Name = typeNames[g.nextBlk%3] // the members of a block register the same name
					}
					if op == "comp_update" || op == "comp_delete" {
						st.Typ = Ref{K: "comp", I: g.nextBlk % 3}
					}
					if op == "unsubscribe" || op == "subscribe" {
						st.Typ = Ref{K: "reg", I: g.nextBlk % 3}
					}
					if op == "comp_add" && r.Bool(0.6) {
						// ... and add the same component
						st.Typ, st.Ent = Ref{K: "reg", I: g.nextBlk % 3}, Ref{K: "any", I: g.nextBlk % 3}
					}
				}
				st.Block = g.nextBlk
				g.steps = append(g.steps, st)
				used++
			}
			if p.ProbeAfterBlock > 0 && r.Bool(p.ProbeAfterBlock) {
				// what a newcomer is handed once the block has settled
				if lj2 := g.liveJoined(); len(lj2) > 0 {
					if pc, ok := g.freshConn(); ok {
						g.join(pc, g.joined[lj2[r.Intn(len(lj2))]])
						g.steps = append(g.steps, Step{Conn: pc, Op: "close"})
						g.dead[pc] = true
						g.joined[pc] = ""
					}
				}
			}
			continue
		}
		op := g.pickWeighted()
		if op == "switch" {
			s := g.sessName()
			if r.Bool(0.1) {
				s = "current"
			} else if r.Bool(0.1) {
				s = "unknown"
			}
			g.join(c, s)
			continue
		}
		g.steps = append(g.steps, g.makeOp(c, op))
	}

	sc := &Scenario{Prop: p.Name, Family: "history", Seed: seed, Steps: g.steps}
	sc.World = genWorld(seed, r, p)
	return sc
}

// focusBlock: 2-4 members of one session issue, at the same instant, requests that all concern
// one entity (owned by the first of them), one component type and one action name: the owner
// deletes it, leaves or changes it while the others attach, change, read or detach things.
func (g *genState) focusBlock(lj []int, k int) bool {
	r := g.r
	perm := r.Perm(len(lj))
	oc := lj[perm[0]]
	var cs []int
	for _, pi := range perm {
		if g.joined[lj[pi]] == g.joined[oc] && len(cs) < k {
			cs = append(cs, lj[pi])
		}
	}
	if len(cs) < 2 {
		return false
	}
	g.nextBlk++
	ei := r.Intn(2)
	typ := Ref{K: "reg", I: r.Intn(2)}
	name := []string{"open", "spin"}[r.Intn(2)]
	prevOp, ownerOp := "", ""
	for i, bc := range cs {
		ent := Ref{K: "of", I: oc*8 + ei}
		var menu []string
		var w []int
		if i == 0 {
			ent = Ref{K: "own", I: ei}
			menu, w = []string{"entity_delete", "close", "switch", "pose", "comp_add", "comp_delete", "comp_update", "action", "asset_add"}, []int{30, 14, 6, 8, 8, 8, 8, 10, 8}
		} else {
			menu, w = []string{"comp_add", "comp_delete", "comp_update", "comp_list", "action", "pose", "asset_add", "entity_delete", "joiner", "subscribe", "unsubscribe"}, []int{18, 14, 14, 8, 22, 4, 3, 3, 6, 4, 4}
		}
		if i >= 1 && (ownerOp == "close" || ownerOp == "entity_delete" || ownerOp == "switch") {
			// the owner takes the entity away: the others attach to it, change and detach
			menu, w = []string{"comp_update", "comp_add", "action", "comp_delete", "comp_list", "pose", "joiner"}, []int{28, 20, 26, 10, 6, 4, 6}
		}
		op := g.pick(menu, w)
		if i == 0 {
			ownerOp = op
		}
		if i >= 2 && prevOp != "" && r.Bool(0.35) {
			op = prevOp // the same request twice on the same object (add/add, delete/delete, action/action)
		}
		if i >= 1 {
			prevOp = op
			if op == "joiner" || op == "entity_delete" {
				prevOp = ""
			}
		}
		var st Step
		switch op {
		case "close":
			st = Step{Conn: bc, Op: "close"}
			g.dead[bc] = true
			g.joined[bc] = ""
		case "switch":
			st = Step{Conn: bc, Op: "join", Sess: g.sessName()}
			g.joined[bc] = st.Sess
		case "joiner":
			nc, ok := g.freshConn()
			if !ok {
				continue
			}
			st = Step{Conn: nc, Op: "join", Sess: g.joined[oc]}
			g.joined[nc] = st.Sess
		default:
			st = g.makeOp(bc, op)
			st.NoPose = false
			st.Variant = ""
			switch op {
			case "entity_delete", "pose", "asset_add":
				st.Ent = ent
			case "comp_add", "comp_delete", "comp_update":
				st.Ent, st.Typ = ent, typ
			case "comp_list", "subscribe", "unsubscribe":
				st.Typ = typ
			case "action":
				st.Ent, st.Name = ent, name
				st.TSKind = g.pick([]string{"now", "equal", "older", "older_ns", "future", "far_future"}, []int{30, 10, 20, 10, 20, 10})
			}
		}
		st.Block = g.nextBlk
		g.steps = append(g.steps, st)
	}
	return true
}

func genWorld(seed uint64, r *simrt.Rand, p *Profile) WorldCfg {
	w := WorldCfg{Seed: seed, Decorators: r.Bool(0.7)}
	all := []string{"vikja", "odal", "dagaz"}
	if p.AllModules || r.Bool(0.5) {
		w.Modules = all
	} else {
		for _, m := range all {
			if r.Bool(0.5) {
				w.Modules = append(w.Modules, m)
			}
		}
	}
	pol := p.Policies
	if len(pol) == 0 {
		pol = []string{"seq", "rand", "rand", "pct"}
	}
	w.Policy = pol[r.Intn(len(pol))]
	switch w.Policy {
	case "rand":
		w.Sticky = []float64{0, 0.5, 0.9}[r.Intn(3)]
	case "pct":
		w.PCTDepth = 1 + r.Intn(3)
		w.PCTLen = 200 + r.Intn(3000)
	}
	if w.Policy != "seq" {
		w.SelectOrder = []string{"", "", "", "source", "reverse"}[r.Intn(5)]
		w.UnlockYield = []float64{0, 0, 0.2, 0.5}[r.Intn(4)]
		w.StmtYield = []float64{0, 0, 0.1, 0.3}[r.Intn(4)]
	}
	if w.Policy != "seq" && r.Bool(0.3) {
		w.StallProb = 0.002
		w.StallMax = time.Duration(1+r.Intn(40)) * time.Millisecond
	}
	if w.Policy != "seq" && p.StallBoost > 0 && r.Bool(p.StallBoost) {
		w.StallProb = 0.01
		w.StallMax = 5 * time.Millisecond
	}
	if r.Bool(0.25) {
		w.Skew = []string{"const", "const", "saw", "jumpback"}[r.Intn(4)]
		w.SkewBase = []int64{0, 5, -5, 3600, -3600, -7 * 86400, 365 * 86400}[r.Intn(7)]
	}
	frames := []time.Duration{time.Millisecond, 5 * time.Millisecond, 15 * time.Millisecond, 15 * time.Millisecond, 50 * time.Millisecond, 500 * time.Millisecond}
	w.FrameDuration = frames[r.Intn(len(frames))]
	w.SyncClock = []time.Duration{5 * time.Second, time.Second, 200 * time.Millisecond}[r.Intn(3)]
	w.Summary = []time.Duration{time.Minute, time.Second}[r.Intn(2)]
	w.Net = NetCfg{
		MinLat:    []time.Duration{10 * time.Microsecond, 200 * time.Microsecond, 2 * time.Millisecond, 20 * time.Millisecond}[r.Intn(4)],
		Jitter:    []time.Duration{0, 100 * time.Microsecond, 3 * time.Millisecond}[r.Intn(3)],
		SplitProb: []float64{0, 0.2, 0.7}[r.Intn(3)],
		Window:    []int{64 << 10, 4 << 10, 1 << 20}[r.Intn(3)],
	}
	if p.NoJitter > 0 && r.Bool(p.NoJitter) {
		w.Net.Jitter = 0
	}
	if w.Policy != "seq" && w.UnlockYield < p.MinUnlockYield {
		w.UnlockYield = p.MinUnlockYield
	}
	return w
}
