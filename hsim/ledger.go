package hsim

import (
	"fmt"

	"github.com/aukilabs/hagall-common/messages/hagallpb"
	"github.com/aukilabs/hagall-common/messages/odalpb"
)

// ledger: model-free history invariants over every id the server hands out (C10), fed from
// the answers every client receives, in stream order. It holds under any interleaving.
type ledger struct {
	pids  map[string]map[uint32]string
	eids  map[string]map[uint32]string
	aids  map[string]map[uint32]string
	byNm  map[string]map[string]uint32
	byID  map[string]map[uint32]string
	uuids map[string]string // uuid -> first session id seen
	rids  map[uint32]int    // request id -> number of answers seen (C04: exactly one, at the requester only)
	viol  []Violation
}

func newLedger() *ledger {
	return &ledger{pids: map[string]map[uint32]string{}, eids: map[string]map[uint32]string{}, aids: map[string]map[uint32]string{},
		byNm: map[string]map[string]uint32{}, byID: map[string]map[uint32]string{}, uuids: map[string]string{}, rids: map[uint32]int{}}
}

func (l *ledger) v(prop, rule, format string, a ...any) {
	l.viol = append(l.viol, Violation{Prop: prop, Rule: rule, Detail: fmt.Sprintf(format, a...)})
}

func sub[K comparable, V any](m map[string]map[K]V, k string) map[K]V {
	if m[k] == nil {
		m[k] = map[K]V{}
	}
	return m[k]
}

func (l *ledger) observe(c *Client, m *RecvMsg) {
	// request ids are allocated by the harness as (connection index + 1) * 100000 + n: an answer
	// carrying one must arrive at that connection, once. (Type 38 is a ping the server sends
	// with an id of its own; 39/0 answering a server ping id are outside this scheme.)
	if m.ReqID >= 100000 && m.Type != 38 && c.ridBase > 0 {
		owner := int(m.ReqID / 100000)
		if owner != c.ridBase {
			l.v("C04", "answer-wrong-recipient", "%s received a message (type %d) carrying request id %d, which belongs to connection index %d", c.Label, m.Type, m.ReqID, owner-1)
			l.v("C03", "foreign-effect", "%s received a message (type %d) carrying request id %d of another connection", c.Label, m.Type, m.ReqID)
		} else {
			l.rids[m.ReqID]++
			if l.rids[m.ReqID] == 2 && m.Type != 2 && m.Type != 100 && m.Type != 200 {
				l.v("C04", "answer-duplicate", "%s received a second message (type %d) carrying request id %d", c.Label, m.Type, m.ReqID)
			}
		}
	}
	switch x := m.Msg.(type) {
	case *hagallpb.EntityComponentTypeSubscribeResponse:
		if req, ok := c.own[m.ReqID].(*hagallpb.EntityComponentTypeSubscribeRequest); ok {
			if c.subs == nil {
				c.subs = map[uint32]bool{}
			}
			c.subs[req.EntityComponentTypeId] = true
		}
	case *hagallpb.EntityComponentTypeUnsubscribeResponse:
		if req, ok := c.own[m.ReqID].(*hagallpb.EntityComponentTypeUnsubscribeRequest); ok {
			delete(c.subs, req.EntityComponentTypeId)
		}
	case *hagallpb.EntityComponentUpdateBroadcast:
		// the answers to its own subscribe / unsubscribe requests reach a client in order with the
		// notifications: an update notification for a type it is not (or no longer) subscribed
		// to, by its own acknowledged requests, must not arrive
		t := x.GetEntityComponent().GetEntityComponentTypeId()
		if !c.subs[t] && c.View.Joined {
			l.v("C13", "notify-unsubscribed", "%s received an update notification for component type %d, to which it is not subscribed (after its unsubscribe was answered, or never subscribed)", c.Label, t)
		}
	}
	switch x := m.Msg.(type) {
	case *hagallpb.ParticipantJoinResponse:
		c.subs = nil
		ps := sub(l.pids, x.SessionUuid)
		if who, dup := ps[x.ParticipantId]; dup || x.ParticipantId == 0 {
			l.v("C10", "participant-id-reissued", "participant id %d of session %s was issued to %s and again to %s", x.ParticipantId, x.SessionUuid, who, c.Label)
			l.v("C05", "participant-id-reissued", "participant id %d of session %s was issued to %s and again to %s", x.ParticipantId, x.SessionUuid, who, c.Label)
		}
		ps[x.ParticipantId] = c.Label
	case *hagallpb.EntityAddResponse:
		u := c.View.UUID
		es := sub(l.eids, u)
		if who, dup := es[x.EntityId]; dup || x.EntityId == 0 {
			l.v("C10", "entity-id-reissued", "entity id %d of session %s was issued to %s and again to %s", x.EntityId, u, who, c.Label)
		}
		es[x.EntityId] = c.Label
	case *odalpb.AssetInstanceAddResponse:
		u := c.View.UUID
		as := sub(l.aids, u)
		if who, dup := as[x.AssetInstanceId]; dup || x.AssetInstanceId == 0 {
			l.v("C10", "asset-id-duplicate", "asset instance id %d of session %s was issued to %s and again to %s", x.AssetInstanceId, u, who, c.Label)
			l.v("C16", "asset-id-not-fresh", "asset instance id %d of session %s was issued twice", x.AssetInstanceId, u)
		}
		as[x.AssetInstanceId] = c.Label
	case *hagallpb.EntityComponentTypeAddResponse:
		req, ok := c.own[m.ReqID].(*hagallpb.EntityComponentTypeAddRequest)
		if !ok {
			return
		}
		u := c.View.UUID
		name, id := req.EntityComponentTypeName, x.EntityComponentTypeId
		bn, bi := sub(l.byNm, u), sub(l.byID, u)
		if old, ok := bn[name]; ok && old != id {
			l.v("C10", "type-not-bijective", "in session %s the type name %q was given id %d and later id %d", u, name, old, id)
			l.v("C12", "type-registry", "in session %s the type name %q was given id %d and later id %d (registration is not idempotent)", u, name, old, id)
		}
		if old, ok := bi[id]; ok && old != name || id == 0 {
			l.v("C10", "type-not-bijective", "in session %s the type id %d names %q and %q", u, id, old, name)
			l.v("C12", "type-registry", "in session %s the type id %d names %q and %q", u, id, old, name)
		}
		bn[name], bi[id] = id, name
	}
}
