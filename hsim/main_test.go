package hsim

import (
	"encoding/json"
	"fmt"
	"os"
	"regexp"
	"sort"
	"strconv"
	"testing"
	"time"

	"hagallsim/simrt"
)

// propSpec: how one property is explored.
type propSpec struct {
	ID         string
	Gen        func(seed uint64, tier string) *Scenario
	NonTrivial func(res *Result) bool
	Rule       string // what makes a run non-trivial, in words
	Custom     func(t *testing.T, seed uint64, tier string) (*Scenario, *Result)
}

var props = map[string]*propSpec{}

type KnownFinding struct {
	ID       string `json:"id"`
	Property string `json:"property"`
	Rule     string `json:"rule"`
	Match    string `json:"match"` // regular expression over the violation detail
	What     string `json:"what"`
	Status   string `json:"status"` // open | fixed
	Commit   string `json:"commit,omitempty"`
	re       *regexp.Regexp
}

type WorkerViolation struct {
	Seed       uint64    `json:"seed"`
	Violation  Violation `json:"violation"`
	Scenario   *Scenario `json:"scenario"`
	Original   int       `json:"original_steps"`
	Digest     string    `json:"digest"`
	ShrinkRuns int       `json:"shrink_runs"`
}

type WorkerOut struct {
	Property   string            `json:"property"`
	Runs       int               `json:"runs"`
	NonTrivial []string          `json:"nontrivial_digests"`
	SimTimeNS  int64             `json:"sim_time_ns"`
	SchedSteps uint64            `json:"sched_steps"`
	Stats      map[string]int    `json:"stats"`
	Triggers   map[string]int    `json:"triggers"`
	States     []string          `json:"states"`
	Blocks     []string          `json:"blocks"`
	Violations []WorkerViolation `json:"violations"`
	Known      map[string]int    `json:"known"`
	Other      map[string]int    `json:"other_property_violations"`
	Failures   []string          `json:"failures"`
	Samples    []json.RawMessage `json:"samples"`
	Seeds      []uint64          `json:"seeds"`
	WallMS     int64             `json:"wall_ms"`
	Rule       string            `json:"rule"`
	AllDigests []string          `json:"all_digests,omitempty"`
}

func envInt(k string, def int) int {
	if v := os.Getenv(k); v != "" {
		if n, err := strconv.Atoi(v); err == nil {
			return n
		}
	}
	return def
}

func loadKnown() []*KnownFinding {
	var out []*KnownFinding
	p := os.Getenv("HSIM_KNOWN")
	if p == "" {
		return nil
	}
	b, err := os.ReadFile(p)
	if err != nil {
		return nil
	}
	var f struct {
		Findings []*KnownFinding `json:"findings"`
	}
	if json.Unmarshal(b, &f) != nil {
		return nil
	}
	for _, k := range f.Findings {
		if k.Status != "open" {
			continue
		}
		k.re = regexp.MustCompile(k.Match)
		out = append(out, k)
	}
	return out
}

func matchKnown(known []*KnownFinding, v Violation) *KnownFinding {
	for _, k := range known {
		if k.Property == v.Prop && (k.Rule == "" || k.Rule == v.Rule) && k.re.MatchString(v.Detail) {
			return k
		}
	}
	return nil
}

// firstFor returns the first violation of the property that is not a listed finding.
func firstFor(prop string, res *Result, known []*KnownFinding, counts map[string]int) *Violation {
	for i := range res.Violations {
		v := &res.Violations[i]
		if v.Prop != prop && os.Getenv("HSIM_ANY") == "" {
			continue
		}
		if os.Getenv("HSIM_ANY") != "" && os.Getenv("HSIM_ANY") != "1" && !regexp.MustCompile(os.Getenv("HSIM_ANY")).MatchString(v.Prop+"/"+v.Rule) {
			continue
		}
		if k := matchKnown(known, *v); k != nil {
			if counts != nil {
				counts[k.ID]++
			}
			continue
		}
		return v
	}
	return nil
}

func runOne(t *testing.T, spec *propSpec, seed uint64, tier string) (*Scenario, *Result) {
	if spec.Custom != nil {
		return spec.Custom(t, seed, tier)
	}
	sc := spec.Gen(seed, tier)
	return sc, RunScenario(t, sc)
}

// TestCheck is the worker entry point; the driver script starts one process per worker.
func TestCheck(t *testing.T) {
	prop := os.Getenv("HSIM_PROP")
	if prop == "" {
		t.Skip("HSIM_PROP not set")
	}
	spec := props[prop]
	if spec == nil {
		t.Fatalf("unknown property %s", prop)
	}
	tier := os.Getenv("HSIM_TIER")
	if tier == "" {
		tier = "quick"
	}
	base, _ := strconv.ParseUint(os.Getenv("HSIM_SEED"), 10, 64)
	worker, workers := envInt("HSIM_WORKER", 0), envInt("HSIM_WORKERS", 1)
	budget := time.Duration(envInt("HSIM_BUDGET_MS", 10000)) * time.Millisecond
	maxRuns := envInt("HSIM_MAXRUNS", 1<<30)
	known := loadKnown()
	out := &WorkerOut{Property: prop, Rule: spec.Rule, Stats: map[string]int{}, Triggers: map[string]int{}, Known: map[string]int{}, Other: map[string]int{}}
	nt := map[string]bool{}
	states := map[string]bool{}
	blocks := map[string]bool{}
	start := time.Now()
	for i := worker; i < maxRuns && time.Since(start) < budget; i += workers {
		seed := simrt.Mix(base, fmt.Sprintf("%s/%d", prop, i))
		sc, res := runOne(t, spec, seed, tier)
		if simrt.RaceBuild {
			res.Violations = append(res.Violations, scanRaces()...)
			out.Stats["race_build_runs"]++
		}
		out.Runs++
		if os.Getenv("HSIM_DIGESTS") != "" {
			out.AllDigests = append(out.AllDigests, res.Digest)
		}
		if len(out.Seeds) < 8 {
			out.Seeds = append(out.Seeds, seed)
		}
		out.SimTimeNS += int64(res.SimTime)
		out.SchedSteps += res.Steps
		for k, v := range res.Stats {
			out.Stats[k] += v
		}
		for k, v := range res.Triggers {
			out.Triggers[k] += v
		}
		for k := range res.States {
			states[k] = true
		}
		for k := range res.Blocks {
			blocks[k] = true
		}
		if (i/workers)%50 == 7 && !simrt.RaceBuild {
			// determinism spot check: the same seed again, in this process, must give the same
			// event log digest (the cross-process test is `./check selftest`)
			_, again := runOne(t, spec, seed, tier)
			out.Stats["determinism_rechecks"]++
			if again.Digest != res.Digest {
				out.Failures = append(out.Failures, fmt.Sprintf("seed %d: two executions gave different event logs (%s / %s): harness nondeterminism", seed, res.Digest[:12], again.Digest[:12]))
			}
		}
		if res.Failure != "" {
			out.Failures = append(out.Failures, fmt.Sprintf("seed %d: %s", seed, res.Failure))
			if len(out.Failures) > 5 {
				break
			}
			continue
		}
		if spec.NonTrivial == nil || spec.NonTrivial(res) {
			nt[res.Digest[:16]] = true
		}
		for _, v := range res.Violations {
			if v.Prop != prop {
				out.Other[v.Prop+"/"+v.Rule]++
			}
		}
		if v := firstFor(prop, res, known, out.Known); v != nil && sc != nil {
			wv := WorkerViolation{Seed: seed, Violation: *v, Scenario: sc, Original: len(sc.Steps), Digest: res.Digest}
			if spec.Custom == nil && os.Getenv("HSIM_NOSHRINK") == "" {
				small, sv, n := Shrink(t, sc, v.Prop, v.Rule, known, 40*time.Second)
				wv.Scenario, wv.ShrinkRuns = small, n
				if sv != nil {
					wv.Violation = *sv
				}
				// the digest a replay must reproduce is the one of the minimised scenario
				if again := RunScenario(t, small); again != nil {
					wv.Digest = again.Digest
				}
			}
			out.Violations = append(out.Violations, wv)
			break
		}
		if len(out.Samples) < 2 && sc != nil && (spec.NonTrivial == nil || spec.NonTrivial(res)) {
			if b, err := json.Marshal(map[string]any{"seed": seed, "scenario": sc, "digest": res.Digest, "sim_time": res.SimTime.String(), "triggers": res.Triggers}); err == nil && len(b) < 20000 {
				out.Samples = append(out.Samples, b)
			}
		}
	}
	for k := range nt {
		out.NonTrivial = append(out.NonTrivial, k)
	}
	for k := range states {
		out.States = append(out.States, k)
	}
	for k := range blocks {
		out.Blocks = append(out.Blocks, k)
	}
	sort.Strings(out.NonTrivial)
	out.WallMS = time.Since(start).Milliseconds()
	b, _ := json.Marshal(out)
	if p := os.Getenv("HSIM_OUT"); p != "" {
		if err := os.WriteFile(p, b, 0o644); err != nil {
			t.Fatal(err)
		}
	} else {
		fmt.Println(string(b))
	}
}

// ReplayFile is what a VIOLATION line points to.
type ReplayFile struct {
	Property string    `json:"property"`
	Rule     string    `json:"rule"`
	Detail   string    `json:"detail"`
	Seed     uint64    `json:"seed"`
	RepoTree string    `json:"repo_tree_hash"`
	Scenario *Scenario `json:"scenario"`
	Digest   string    `json:"digest"`
	Original int       `json:"original_steps"`
	GenTree  string    `json:"generated_tree,omitempty"`
}

// TestReplay re-executes a replay file in a fresh process; exit status via HSIM_OUT json.
func TestReplay(t *testing.T) {
	p := os.Getenv("HSIM_REPLAY")
	if p == "" {
		t.Skip("HSIM_REPLAY not set")
	}
	b, err := os.ReadFile(p)
	if err != nil {
		t.Fatal(err)
	}
	var rf ReplayFile
	if err := json.Unmarshal(b, &rf); err != nil {
		t.Fatal(err)
	}
	if os.Getenv("HSIM_TRACE") != "" {
		rf.Scenario.World.Trace = true
	}
	var res *Result
	if spec := props[rf.Property]; spec != nil && spec.Custom != nil {
		_, res = spec.Custom(t, rf.Seed, "replay")
	} else {
		res = RunScenario(t, rf.Scenario)
	}
	if simrt.RaceBuild {
		res.Violations = append(res.Violations, scanRaces()...)
	}
	reproduced := false
	var got []Violation
	for _, v := range res.Violations {
		if v.Prop == rf.Property || os.Getenv("HSIM_ANY") != "" { // HSIM_ANY: debugging aid, every property's rules
			got = append(got, v)
			if v.Rule == rf.Rule {
				reproduced = true
			}
		}
	}
	out := map[string]any{"reproduced": reproduced, "violations": got, "digest": res.Digest, "same_digest": res.Digest == rf.Digest, "failure": res.Failure}
	if os.Getenv("HSIM_TRACE") != "" {
		for _, l := range res.Trace {
			fmt.Println(l)
		}
	}
	ob, _ := json.MarshalIndent(out, "", " ")
	if o := os.Getenv("HSIM_OUT"); o != "" {
		os.WriteFile(o, ob, 0o644)
	} else {
		fmt.Println(string(ob))
	}
}
