package hsim

import (
	"math"
	"strings"

	"github.com/aukilabs/hagall-common/messages/dagazpb"
	"github.com/aukilabs/hagall-common/messages/hagallpb"
	"github.com/aukilabs/hagall-common/messages/odalpb"
	"github.com/aukilabs/hagall-common/messages/vikjapb"
	"google.golang.org/protobuf/proto"
	"google.golang.org/protobuf/reflect/protoreflect"
	"google.golang.org/protobuf/types/known/timestamppb"
	"hagallsim/simrt"
)

// Descriptor-driven generator of structurally valid messages of every message type of the four
// packages, with every optional sub-message absent or present and scalars at boundary values.

type msgKind struct {
	name string
	typ  int32
	new  func() proto.Message
}

var clientKinds = []msgKind{
	{"ParticipantJoinRequest", 3, func() proto.Message { return &hagallpb.ParticipantJoinRequest{} }},
	{"ParticipantLeaveRequest", 6, func() proto.Message { return &hagallpb.ParticipantLeaveRequest{} }},
	{"EntityAddRequest", 8, func() proto.Message { return &hagallpb.EntityAddRequest{} }},
	{"EntityDeleteRequest", 11, func() proto.Message { return &hagallpb.EntityDeleteRequest{} }},
	{"EntityUpdatePose", 14, func() proto.Message { return &hagallpb.EntityUpdatePose{} }},
	{"CustomMessage", 16, func() proto.Message { return &hagallpb.CustomMessage{} }},
	{"EntityComponentTypeAddRequest", 18, func() proto.Message { return &hagallpb.EntityComponentTypeAddRequest{} }},
	{"EntityComponentTypeGetNameRequest", 20, func() proto.Message { return &hagallpb.EntityComponentTypeGetNameRequest{} }},
	{"EntityComponentTypeGetIdRequest", 22, func() proto.Message { return &hagallpb.EntityComponentTypeGetIdRequest{} }},
	{"EntityComponentAddRequest", 24, func() proto.Message { return &hagallpb.EntityComponentAddRequest{} }},
	{"EntityComponentDeleteRequest", 27, func() proto.Message { return &hagallpb.EntityComponentDeleteRequest{} }},
	{"EntityComponentUpdate", 30, func() proto.Message { return &hagallpb.EntityComponentUpdate{} }},
	{"EntityComponentListRequest", 32, func() proto.Message { return &hagallpb.EntityComponentListRequest{} }},
	{"EntityComponentTypeSubscribeRequest", 34, func() proto.Message { return &hagallpb.EntityComponentTypeSubscribeRequest{} }},
	{"EntityComponentTypeUnsubscribeRequest", 36, func() proto.Message { return &hagallpb.EntityComponentTypeUnsubscribeRequest{} }},
	{"PingRequest", 38, func() proto.Message { return &hagallpb.Request{} }},
	{"PingResponse", 39, func() proto.Message { return &hagallpb.Response{} }},
	{"ReceiptRequest", 40, func() proto.Message { return &hagallpb.ReceiptRequest{} }},
	{"SignedLatencyRequest", 42, func() proto.Message { return &hagallpb.SignedLatencyRequest{} }},
	{"VikjaEntityActionRequest", 101, func() proto.Message { return &vikjapb.EntityActionRequest{} }},
	{"OdalAssetInstanceAddRequest", 201, func() proto.Message { return &odalpb.AssetInstanceAddRequest{} }},
	{"DagazQuadSample", 300, func() proto.Message { return &dagazpb.DagazQuadSample{} }},
	{"DagazGetGroundPlaneRequest", 301, func() proto.Message { return &dagazpb.DagazGetGroundPlaneRequest{} }},
	{"DagazGetRegionRequest", 303, func() proto.Message { return &dagazpb.DagazGetRegionRequest{} }},
	{"DagazGetDebugInfoRequest", 305, func() proto.Message { return &dagazpb.DagazGetDebugInfoRequest{} }},
	// message kinds only the server is supposed to send
	{"SessionState", 2, func() proto.Message { return &hagallpb.SessionState{} }},
	{"ErrorResponse", 0, func() proto.Message { return &hagallpb.ErrorResponse{} }},
	{"EntityAddBroadcast", 10, func() proto.Message { return &hagallpb.EntityAddBroadcast{} }},
	{"EntityUpdatePoseBroadcast", 15, func() proto.Message { return &hagallpb.EntityUpdatePoseBroadcast{} }},
	{"CustomMessageBroadcast", 17, func() proto.Message { return &hagallpb.CustomMessageBroadcast{} }},
	{"EntityComponentAddBroadcast", 26, func() proto.Message { return &hagallpb.EntityComponentAddBroadcast{} }},
	{"SignedLatencyResponse", 43, func() proto.Message { return &hagallpb.SignedLatencyResponse{} }},
	{"VikjaState", 100, func() proto.Message { return &vikjapb.State{} }},
	{"VikjaEntityActionBroadcast", 103, func() proto.Message { return &vikjapb.EntityActionBroadcast{} }},
	{"OdalState", 200, func() proto.Message { return &odalpb.State{} }},
	{"DagazGetRegionResponse", 304, func() proto.Message { return &dagazpb.DagazGetRegionResponse{} }},
}

var floatEdges = []float64{0, 1, -1, 0.5, 63.5, -64, 1e9, -1e9, 1e30, -1e30, math.MaxFloat32, math.Inf(1), math.Inf(-1), math.NaN(), math.SmallestNonzeroFloat32}

// floatsInRange: coordinates the dagaz input validation lets through (|x| <= 1024), for messages
// that are well-formed field by field and odd only in combination (inverted boxes, boxes beside
// the grid, degenerate extents, rays along an axis)
var floatsInRange = []float64{0, 0, 1, -1, 0.5, -0.5, 2, -2, 3.25, 10, -10, 63.5, -64, 100, -100, 127, -128, math.SmallestNonzeroFloat32}
var curFloats = floatEdges

var uintEdges = []uint64{0, 1, 2, 3, 7, 255, 65535, math.MaxUint32}

func fillMessage(r *simrt.Rand, m protoreflect.Message, depth int, pAbsent float64) {
	fs := m.Descriptor().Fields()
	for i := 0; i < fs.Len(); i++ {
		fd := fs.Get(i)
		if fd.Number() == 1 && fd.Kind() == protoreflect.EnumKind && depth == 0 {
			continue // the type field is set by the caller
		}
		if r.Bool(pAbsent) {
			continue
		}
		if fd.IsList() {
			l := m.Mutable(fd).List()
			n := []int{0, 1, 1, 2, 3}[r.Intn(5)]
			for k := 0; k < n; k++ {
				if fd.Kind() == protoreflect.MessageKind {
					e := l.NewElement()
					if depth < 3 {
						fillMessage(r, e.Message(), depth+1, pAbsent)
					}
					l.Append(e)
				} else {
					l.Append(scalar(r, fd))
				}
			}
			continue
		}
		if fd.IsMap() {
			continue
		}
		if fd.Kind() == protoreflect.MessageKind {
			if fd.Message().FullName() == "google.protobuf.Timestamp" {
				ts := &timestamppb.Timestamp{Seconds: 946684800, Nanos: 5}
				switch r.Intn(8) {
				case 0:
					ts = &timestamppb.Timestamp{}
				case 1:
					ts = &timestamppb.Timestamp{Seconds: -62135596800 - 5, Nanos: -1}
				case 2:
					ts = &timestamppb.Timestamp{Seconds: math.MaxInt64, Nanos: math.MaxInt32}
				}
				m.Set(fd, protoreflect.ValueOfMessage(ts.ProtoReflect()))
				continue
			}
			if depth < 3 {
				fillMessage(r, m.Mutable(fd).Message(), depth+1, pAbsent)
			}
			continue
		}
		m.Set(fd, scalar(r, fd))
	}
}

func scalar(r *simrt.Rand, fd protoreflect.FieldDescriptor) protoreflect.Value {
	switch fd.Kind() {
	case protoreflect.BoolKind:
		return protoreflect.ValueOfBool(r.Bool(0.5))
	case protoreflect.EnumKind:
		vals := fd.Enum().Values()
		if r.Bool(0.2) {
			return protoreflect.ValueOfEnum(protoreflect.EnumNumber(9999))
		}
		return protoreflect.ValueOfEnum(vals.Get(r.Intn(vals.Len())).Number())
	case protoreflect.Int32Kind, protoreflect.Sint32Kind, protoreflect.Sfixed32Kind:
		return protoreflect.ValueOfInt32([]int32{0, 1, -1, math.MaxInt32, math.MinInt32}[r.Intn(5)])
	case protoreflect.Int64Kind, protoreflect.Sint64Kind, protoreflect.Sfixed64Kind:
		return protoreflect.ValueOfInt64([]int64{0, 1, -1, math.MaxInt64, math.MinInt64}[r.Intn(5)])
	case protoreflect.Uint32Kind, protoreflect.Fixed32Kind:
		return protoreflect.ValueOfUint32(uint32(uintEdges[r.Intn(len(uintEdges))]))
	case protoreflect.Uint64Kind, protoreflect.Fixed64Kind:
		return protoreflect.ValueOfUint64(uintEdges[r.Intn(len(uintEdges))])
	case protoreflect.FloatKind:
		return protoreflect.ValueOfFloat32(float32(curFloats[r.Intn(len(curFloats))]))
	case protoreflect.DoubleKind:
		return protoreflect.ValueOfFloat64(curFloats[r.Intn(len(curFloats))])
	case protoreflect.StringKind:
		return protoreflect.ValueOfString([]string{"", "x", "alpha", "0x00", string(make([]byte, 300)), "\xff\xfe"}[r.Intn(6)])
	case protoreflect.BytesKind:
		return protoreflect.ValueOfBytes([][]byte{nil, {}, {0}, make([]byte, 70), make([]byte, 11000)}[r.Intn(5)])
	}
	return fd.Default()
}

// genMalformed returns the wire payload of one structurally valid message.
func genMalformed(r *simrt.Rand) (payload []byte, desc string) {
	k := clientKinds[r.Intn(len(clientKinds))]
	pAbsent := []float64{0, 0.3, 0.6, 0.9}[r.Intn(4)]
	curFloats = floatEdges
	if r.Bool(0.15) {
		// a dagaz request whose every coordinate passes the input validation
		var dz []msgKind
		for _, ck := range clientKinds {
			if strings.HasPrefix(ck.name, "Dagaz") {
				dz = append(dz, ck)
			}
		}
		if len(dz) > 0 {
			k = dz[r.Intn(len(dz))]
			curFloats = floatsInRange
			pAbsent = 0
		}
	}
	m := k.new()
	fillMessage(r, m.ProtoReflect(), 0, pAbsent)
	curFloats = floatEdges
	typ := k.typ
	desc = k.name
	switch x := r.Intn(12); {
	case x == 0: // type field of another message kind
		o := clientKinds[r.Intn(len(clientKinds))]
		typ = o.typ
		desc += "-as-" + o.name
	case x == 1:
		typ = []int32{-1, 44, 99, 104, 204, 307, 1000, math.MaxInt32}[r.Intn(8)]
		desc += "-unknown-type"
	}
	mr := m.ProtoReflect()
	if fd := mr.Descriptor().Fields().ByNumber(1); fd != nil && fd.Kind() == protoreflect.EnumKind {
		mr.Set(fd, protoreflect.ValueOfEnum(protoreflect.EnumNumber(typ)))
	}
	// the timestamp is mandatory on the wire; keep it most of the time so that the body is reached
	if fd := mr.Descriptor().Fields().ByNumber(2); fd != nil && fd.Kind() == protoreflect.MessageKind && !mr.Has(fd) && r.Bool(0.85) {
		mr.Set(fd, protoreflect.ValueOfMessage((&timestamppb.Timestamp{Seconds: 946684800, Nanos: 7}).ProtoReflect()))
	}
	b, err := proto.MarshalOptions{AllowPartial: true}.Marshal(m)
	if err != nil {
		return []byte{8, 3}, desc + "-unmarshalable"
	}
	return b, desc
}
