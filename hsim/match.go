package hsim

import (
	"fmt"
	"sort"
	"strings"

	"github.com/aukilabs/hagall-common/messages/dagazpb"
	"github.com/aukilabs/hagall-common/messages/hagallpb"
	"github.com/aukilabs/hagall-common/messages/odalpb"
	"github.com/aukilabs/hagall-common/messages/vikjapb"
	"google.golang.org/protobuf/proto"
	"google.golang.org/protobuf/reflect/protoreflect"
)

// norm clones a message, clears the server's own timestamp (and the origin timestamp when the
// expectation leaves it open) and sorts repeated fields that are sets by nature.
func norm(m proto.Message, anyOrigin bool) proto.Message {
	c := proto.Clone(m)
	r := c.ProtoReflect()
	fs := r.Descriptor().Fields()
	if fd := fs.ByName("timestamp"); fd != nil && fd.Kind() == protoreflect.MessageKind {
		r.Clear(fd)
	}
	if anyOrigin {
		if fd := fs.ByName("origin_timestamp"); fd != nil {
			r.Clear(fd)
		}
	}
	switch x := c.(type) {
	case *hagallpb.SessionState:
		sort.Slice(x.Participants, func(i, j int) bool { return x.Participants[i].GetId() < x.Participants[j].GetId() })
		sort.Slice(x.Entities, func(i, j int) bool { return x.Entities[i].GetId() < x.Entities[j].GetId() })
		sortComps(x.EntityComponents)
	case *hagallpb.EntityComponentListResponse:
		sortComps(x.EntityComponents)
	case *vikjapb.State:
		sort.Slice(x.EntityActions, func(i, j int) bool {
			a, b := x.EntityActions[i], x.EntityActions[j]
			if a.GetEntityId() != b.GetEntityId() {
				return a.GetEntityId() < b.GetEntityId()
			}
			return a.GetName() < b.GetName()
		})
	case *odalpb.State:
		sort.Slice(x.AssetInstances, func(i, j int) bool { return x.AssetInstances[i].GetEntityId() < x.AssetInstances[j].GetEntityId() })
	case *dagazpb.DagazGetRegionResponse:
		sort.Slice(x.Quads, func(i, j int) bool { return fmt.Sprint(x.Quads[i]) < fmt.Sprint(x.Quads[j]) })
	}
	return c
}

func sortComps(l []*hagallpb.EntityComponent) {
	sort.Slice(l, func(i, j int) bool {
		if l[i].GetEntityComponentTypeId() != l[j].GetEntityComponentTypeId() {
			return l[i].GetEntityComponentTypeId() < l[j].GetEntityComponentTypeId()
		}
		return l[i].GetEntityId() < l[j].GetEntityId()
	})
}

type mismatch struct {
	Kind   string // missing | extra | wrong | duplicate
	Detail string
}

func short(m proto.Message) string {
	if m == nil {
		return "<undecodable>"
	}
	s := fmt.Sprintf("%s{%v}", m.ProtoReflect().Descriptor().Name(), m)
	if len(s) > 300 {
		s = s[:300] + "..."
	}
	return s
}

// matchStream compares what one connection received with the expected groups, in order.
func matchStream(actual []*RecvMsg, exp []Exp) *mismatch {
	i := 0
	for _, g := range exp {
		if g.Pred != nil {
			if i < len(actual) && actual[i].Msg != nil && g.Pred(actual[i].Msg) == "" {
				i++
				continue
			}
			if g.Optional {
				continue
			}
			if i >= len(actual) {
				return &mismatch{"missing", "expected " + g.Desc + ", got nothing"}
			}
			why := "undecodable message"
			if actual[i].Msg != nil {
				why = g.Pred(actual[i].Msg)
			}
			return &mismatch{"wrong", fmt.Sprintf("expected %s: %s (got %s)", g.Desc, why, short(actual[i].Msg))}
		}
		n := len(g.Msgs)
		// try to match the group against the next n messages as a multiset
		if i+n <= len(actual) && matchGroup(actual[i:i+n], g) {
			i += n
			continue
		}
		if g.Optional {
			continue
		}
		// diagnose
		if i >= len(actual) {
			return &mismatch{"missing", fmt.Sprintf("expected %s, got nothing", descGroup(g))}
		}
		// is the expected message present later or earlier (order), or is the actual one a repeat?
		return &mismatch{"wrong", fmt.Sprintf("expected %s, got %s", descGroup(g), descActual(actual[i:min(i+n, len(actual))]))}
	}
	if i < len(actual) {
		kind := "extra"
		// a repeat of an expected message?
		for _, g := range exp {
			for _, e := range g.Msgs {
				if actual[i].Msg != nil && proto.Equal(norm(actual[i].Msg, g.AnyOrigin), norm(e, g.AnyOrigin)) {
					kind = "duplicate"
				}
			}
		}
		return &mismatch{kind, fmt.Sprintf("unexpected %s", descActual(actual[i:]))}
	}
	return nil
}

func matchGroup(actual []*RecvMsg, g Exp) bool {
	used := make([]bool, len(actual))
	for _, e := range g.Msgs {
		ne := norm(e, g.AnyOrigin)
		found := false
		for j, a := range actual {
			if used[j] || a.Msg == nil {
				continue
			}
			if proto.Equal(norm(a.Msg, g.AnyOrigin), ne) {
				used[j] = true
				found = true
				break
			}
		}
		if !found {
			return false
		}
	}
	return true
}

func descGroup(g Exp) string {
	if g.Pred != nil {
		return g.Desc
	}
	var parts []string
	for _, m := range g.Msgs {
		parts = append(parts, short(norm(m, g.AnyOrigin)))
	}
	return "[" + strings.Join(parts, " | ") + "]"
}

func descActual(a []*RecvMsg) string {
	var parts []string
	for i, m := range a {
		if i >= 4 {
			parts = append(parts, fmt.Sprintf("... %d more", len(a)-i))
			break
		}
		if m.Msg == nil {
			parts = append(parts, fmt.Sprintf("type=%d", m.Type))
		} else {
			parts = append(parts, short(norm(m.Msg, false)))
		}
	}
	return "[" + strings.Join(parts, " | ") + "]"
}

// flag filtering (C17): the message classes the DISABLE_* flags name.
var flagClass = map[string]int32{
	"DISABLE_SESSION_STATE":                     2,
	"DISABLE_PARTICIPANT_JOIN_BROADCAST":        5,
	"DISABLE_PARTICIPANT_LEAVE_BROADCAST":       7,
	"DISABLE_ENTITY_ADD_BROADCAST":              10,
	"DISABLE_ENTITY_DELETE_BROADCAST":           13,
	"DISABLE_ENTITY_UPDATE_POSE_BROADCAST":      15,
	"DISABLE_CUSTOM_MESSAGE_BROADCAST":          17,
	"DISABLE_ENTITY_COMPONENT_ADD_BROADCAST":    26,
	"DISABLE_ENTITY_COMPONENT_UPDATE_BROADCAST": 31,
	"DISABLE_ENTITY_COMPONENT_DELETE_BROADCAST": 29,
}

func disabledTypes(flags []string) map[int32]bool {
	d := map[int32]bool{}
	for _, f := range flags {
		if t, ok := flagClass[f]; ok {
			d[t] = true
		}
	}
	return d
}

func filterExp(exp []Exp, dis map[int32]bool) []Exp {
	if len(dis) == 0 {
		return exp
	}
	var out []Exp
	for _, g := range exp {
		if g.Pred != nil {
			out = append(out, g)
			continue
		}
		ng := g
		ng.Msgs = nil
		for _, m := range g.Msgs {
			if !dis[msgTypeOf(m)] {
				ng.Msgs = append(ng.Msgs, m)
			}
		}
		if len(ng.Msgs) > 0 {
			out = append(out, ng)
		}
	}
	return out
}
