package hsim

import (
	"fmt"
	"sort"
	"time"

	"github.com/aukilabs/hagall-common/messages/hagallpb"
	"github.com/aukilabs/hagall-common/messages/odalpb"
	"github.com/aukilabs/hagall-common/messages/vikjapb"
	"google.golang.org/protobuf/proto"
	"google.golang.org/protobuf/types/known/timestamppb"
)

// The reference model: a small sequential implementation of the protocol state the
// properties talk about. It is written from the property statements and the protocol
// (proto files), not from the server's control flow. Where the statements leave freedom the
// model accepts a set of outcomes ("admissible set"); ids chosen by the server are learnt
// from its answers after checking that they are fresh.

type MEntity struct {
	ID      uint32
	Owner   uint32
	Persist bool
	Flag    int32
	Pose    Pose
}

type MSession struct {
	ID         string // global id under which it can be joined
	UUID       string
	Members    map[uint32]int // participant id -> connection index
	IssuedPIDs map[uint32]bool
	IssuedEIDs map[uint32]bool
	Entities   map[uint32]*MEntity
	TypeByName map[string]uint32
	NameByType map[uint32]string
	Components map[CKey]string
	Subs       map[uint32]map[uint32]bool // type -> subscribed participant ids
	Actions    map[uint32]map[string]VAction
	Assets     map[uint32]VAsset
	IssuedAIDs map[uint32]bool
	// Stale[pid][type]: the participant's view of that type can legitimately be incomplete
	// (a change happened that C13 forbids or does not require telling it about).
	Stale map[uint32]map[uint32]bool
	// dagaz: number of quad samples accepted (C20 keeps its own oracle)
	Quads int
}

type MConn struct {
	Session *MSession
	PID     uint32
	Gone    bool // the connection has ended
}

type Model struct {
	Live     map[string]*MSession // by global session id
	Conns    map[int]*MConn
	AllUUIDs map[string]bool
	Ended    []string // uuids of ended sessions
	Modules  map[string]bool
	modOrder []string
	SymSess  map[string]string // symbolic session name -> global id last bound
	// client clock fault (WorldCfg.Skew)
	Skew     string
	SkewBase int64
	stampN   map[int]int
	// Tainted: connections that sent a pose or component update while in no session. The
	// server holds such an update back until the connection's next join request flushes it, then
	// refuses it (a disconnect cause) while the join is already queued: from then on the
	// connection may be ended at any point of that join. (Shared by clones.)
	Tainted map[int]bool
}

// stamp is the timestamp connection ci writes into its next message.
func (m *Model) stamp(ci int) *timestamppb.Timestamp {
	t := time.Now()
	if m.Skew == "" || ci%2 == 1 {
		return timestamppb.New(t)
	}
	if m.stampN == nil {
		m.stampN = map[int]int{}
	}
	n := m.stampN[ci]
	m.stampN[ci]++
	t = t.Add(time.Duration(m.SkewBase) * time.Second)
	switch m.Skew {
	case "saw":
		t = t.Add(-time.Duration(n%4) * 2 * time.Second)
	case "jumpback":
		if n >= 4 {
			t = t.Add(-time.Hour)
		}
	}
	return timestamppb.New(t)
}

func NewModel(mods []string) *Model {
	m := &Model{Live: map[string]*MSession{}, Conns: map[int]*MConn{}, AllUUIDs: map[string]bool{}, Modules: map[string]bool{}, SymSess: map[string]string{}, Tainted: map[int]bool{}}
	for _, x := range mods {
		m.Modules[x] = true
		m.modOrder = append(m.modOrder, x)
	}
	return m
}

func (m *Model) conn(i int) *MConn {
	c := m.Conns[i]
	if c == nil {
		c = &MConn{}
		m.Conns[i] = c
	}
	return c
}

func newMSession(id, uuid string) *MSession {
	return &MSession{ID: id, UUID: uuid, Members: map[uint32]int{}, IssuedPIDs: map[uint32]bool{}, IssuedEIDs: map[uint32]bool{},
		Entities: map[uint32]*MEntity{}, TypeByName: map[string]uint32{}, NameByType: map[uint32]string{}, Components: map[CKey]string{},
		Subs: map[uint32]map[uint32]bool{}, Actions: map[uint32]map[string]VAction{}, Assets: map[uint32]VAsset{}, IssuedAIDs: map[uint32]bool{},
		Stale: map[uint32]map[uint32]bool{}}
}

// ---------------------------------------------------------------------------------------------
// expectations

// Exp is a group of messages expected in any order among themselves.
type Exp struct {
	Msgs      []proto.Message
	Optional  bool                       // the whole group may be absent
	AnyOrigin bool                       // origin_timestamp is not determined by the request
	Pred      func(proto.Message) string // alternative to Msgs: a predicate on one message ("" = ok)
	Desc      string
}

type Outcome struct {
	Req       []Exp         // what the requester must receive, in order
	Others    map[int][]Exp // what every other connection must receive
	MayEnd    bool          // the requester's connection may be ended by the server
	MustEnd   bool
	Accepted  bool     // an accepted state-changing request
	Props     []string // properties this request kind speaks to (attribution)
	Viol      []Violation
	Kind      string
	StateOnly bool
}

type Violation struct {
	Prop   string `json:"property"`
	Rule   string `json:"rule"`
	Detail string `json:"detail"`
	Step   int    `json:"step"`
	// Keys names the state entries the violation is about (view differences), so that a block
	// can tell whether they are entries two of its requests changed at the same instant
	Keys []string `json:"keys,omitempty"`
}

func (o *Outcome) viol(prop, rule, format string, a ...any) {
	o.Viol = append(o.Viol, Violation{Prop: prop, Rule: rule, Detail: fmt.Sprintf(format, a...)})
}

func (o *Outcome) other(conn int, e Exp) {
	if o.Others == nil {
		o.Others = map[int][]Exp{}
	}
	o.Others[conn] = append(o.Others[conn], e)
}

func one(m proto.Message) Exp { return Exp{Msgs: []proto.Message{m}} }

func errResp(rid uint32, codes ...hagallpb.ErrorCode) Exp {
	if len(codes) == 1 {
		return one(&hagallpb.ErrorResponse{Type: hagallpb.MsgType_MSG_TYPE_ERROR_RESPONSE, RequestId: rid, Code: codes[0]})
	}
	return Exp{Desc: fmt.Sprintf("ErrorResponse rid=%d code in %v", rid, codes), Pred: func(m proto.Message) string {
		e, ok := m.(*hagallpb.ErrorResponse)
		if !ok {
			return fmt.Sprintf("want ErrorResponse, got %T", m)
		}
		if e.RequestId != rid {
			return fmt.Sprintf("request id %d want %d", e.RequestId, rid)
		}
		if len(codes) == 0 {
			return ""
		}
		for _, c := range codes {
			if e.Code == c {
				return ""
			}
		}
		return fmt.Sprintf("code %v not in %v", e.Code, codes)
	}}
}

const (
	eBad      = hagallpb.ErrorCode_ERROR_CODE_BAD_REQUEST
	eUnauth   = hagallpb.ErrorCode_ERROR_CODE_UNAUTHORIZED
	eNotFound = hagallpb.ErrorCode_ERROR_CODE_NOT_FOUND
	eConflict = hagallpb.ErrorCode_ERROR_CODE_CONFLICT
	eTooLarge = hagallpb.ErrorCode_ERROR_CODE_TOO_LARGE
	eJoined   = hagallpb.ErrorCode_ERROR_CODE_SESSION_ALREADY_JOINED
	eBusy     = hagallpb.ErrorCode_ERROR_CODE_SERVER_TOO_BUSY
)

// ---------------------------------------------------------------------------------------------
// helpers on session state

func (s *MSession) others(pid uint32) []uint32 {
	var out []uint32
	for p := range s.Members {
		if p != pid {
			out = append(out, p)
		}
	}
	sort.Slice(out, func(i, j int) bool { return out[i] < out[j] })
	return out
}

func (s *MSession) entityPB(e *MEntity) *hagallpb.Entity {
	return &hagallpb.Entity{Id: e.ID, ParticipantId: e.Owner, Flag: hagallpb.EntityFlag(e.Flag),
		Pose: &hagallpb.Pose{Px: e.Pose[0], Py: e.Pose[1], Pz: e.Pose[2], Rx: e.Pose[3], Ry: e.Pose[4], Rz: e.Pose[5], Rw: e.Pose[6]}}
}

func (s *MSession) statePB() *hagallpb.SessionState {
	st := &hagallpb.SessionState{Type: hagallpb.MsgType_MSG_TYPE_SESSION_STATE}
	for _, p := range s.others(0) {
		st.Participants = append(st.Participants, &hagallpb.Participant{Id: p})
	}
	for _, id := range sortedKeysE(s.Entities) {
		st.Entities = append(st.Entities, s.entityPB(s.Entities[id]))
	}
	for _, k := range sortedCKeys(s.Components) {
		st.EntityComponents = append(st.EntityComponents, &hagallpb.EntityComponent{EntityComponentTypeId: k.Type, EntityId: k.Entity, Data: []byte(s.Components[k])})
	}
	return st
}

func actionPB(a VAction) *vikjapb.EntityAction {
	return &vikjapb.EntityAction{EntityId: a.Entity, Name: a.Name, Timestamp: &timestamppb.Timestamp{Seconds: a.Sec, Nanos: a.Nanos}, Data: []byte(a.Data)}
}

func assetPB(a VAsset) *odalpb.AssetInstance {
	return &odalpb.AssetInstance{Id: a.ID, AssetId: a.Asset, ParticipantId: a.Owner, EntityId: a.Entity}
}

func (s *MSession) vikjaPB() *vikjapb.State {
	st := &vikjapb.State{Type: vikjapb.MsgType_MSG_TYPE_VIKJA_STATE}
	var ents []uint32
	for e := range s.Actions {
		ents = append(ents, e)
	}
	sort.Slice(ents, func(i, j int) bool { return ents[i] < ents[j] })
	for _, e := range ents {
		var names []string
		for n := range s.Actions[e] {
			names = append(names, n)
		}
		sort.Strings(names)
		for _, n := range names {
			st.EntityActions = append(st.EntityActions, actionPB(s.Actions[e][n]))
		}
	}
	return st
}

func (s *MSession) odalPB() *odalpb.State {
	st := &odalpb.State{Type: odalpb.MsgType_MSG_TYPE_ODAL_STATE}
	var ents []uint32
	for e := range s.Assets {
		ents = append(ents, e)
	}
	sort.Slice(ents, func(i, j int) bool { return ents[i] < ents[j] })
	for _, e := range ents {
		st.AssetInstances = append(st.AssetInstances, assetPB(s.Assets[e]))
	}
	return st
}

func sortedKeysE(m map[uint32]*MEntity) []uint32 {
	out := make([]uint32, 0, len(m))
	for k := range m {
		out = append(out, k)
	}
	sort.Slice(out, func(i, j int) bool { return out[i] < out[j] })
	return out
}

func sortedCKeys(m map[CKey]string) []CKey {
	out := make([]CKey, 0, len(m))
	for k := range m {
		out = append(out, k)
	}
	sort.Slice(out, func(i, j int) bool {
		if out[i].Type != out[j].Type {
			return out[i].Type < out[j].Type
		}
		return out[i].Entity < out[j].Entity
	})
	return out
}

func (s *MSession) dropEntity(id uint32) {
	delete(s.Entities, id)
	for k := range s.Components {
		if k.Entity == id {
			delete(s.Components, k)
		}
	}
	delete(s.Actions, id)
	delete(s.Assets, id)
}

func (s *MSession) markStale(pid, typ uint32) {
	if s.Stale[pid] == nil {
		s.Stale[pid] = map[uint32]bool{}
	}
	s.Stale[pid][typ] = true
}

// componentRelay distributes an add/delete/update notification of type typ authored by pid:
// subscribers other than the author must get it; for add/delete other members may get it
// while the type has a subscriber; without any subscriber nobody may. Members that are not
// certain to get it have their view of the type marked stale.
func (s *MSession) componentRelay(o *Outcome, pid, typ uint32, msg proto.Message, update bool) {
	subs := s.Subs[typ]
	for _, p := range s.others(pid) {
		switch {
		case subs[p]:
			o.other(s.Members[p], one(msg))
		case len(subs) > 0 && !update:
			o.other(s.Members[p], Exp{Msgs: []proto.Message{msg}, Optional: true})
			s.markStale(p, typ)
		default:
			s.markStale(p, typ)
		}
	}
}

// depart applies a departure of connection ci from its session and fills what the remaining
// members must be told: one delete per removed entity (any order), then one leave.
func (m *Model) depart(o *Outcome, ci int) {
	c := m.conn(ci)
	s := c.Session
	if s == nil {
		return
	}
	pid := c.PID
	var dels []proto.Message
	for _, id := range sortedKeysE(s.Entities) {
		e := s.Entities[id]
		if e.Owner == pid && !e.Persist {
			s.dropEntity(id)
			dels = append(dels, &hagallpb.EntityDeleteBroadcast{Type: hagallpb.MsgType_MSG_TYPE_ENTITY_DELETE_BROADCAST, EntityId: id})
		}
	}
	for t := range s.Subs {
		delete(s.Subs[t], pid)
	}
	delete(s.Members, pid)
	delete(s.Stale, pid)
	for _, p := range s.others(0) {
		if len(dels) > 0 {
			o.other(s.Members[p], Exp{Msgs: dels, AnyOrigin: true})
		}
		o.other(s.Members[p], Exp{Msgs: []proto.Message{&hagallpb.ParticipantLeaveBroadcast{Type: hagallpb.MsgType_MSG_TYPE_PARTICIPANT_LEAVE_BROADCAST, ParticipantId: pid}}, AnyOrigin: true})
	}
	if len(s.Members) == 0 {
		delete(m.Live, s.ID)
		m.Ended = append(m.Ended, s.UUID)
	}
	c.Session = nil
	c.PID = 0
}

// Depart is used by the runner when a connection ends for any reason.
func (m *Model) Depart(ci int) *Outcome {
	o := &Outcome{Kind: "depart", Props: []string{"C06", "C02"}}
	c := m.conn(ci)
	if c.Session != nil {
		o.Accepted = true
	}
	m.depart(o, ci)
	c.Gone = true
	return o
}

// Clone deep-copies the model (used to try the permutations of a concurrent block).
func (m *Model) Clone() *Model {
	n := &Model{Live: map[string]*MSession{}, Conns: map[int]*MConn{}, AllUUIDs: map[string]bool{}, Modules: m.Modules, modOrder: m.modOrder, SymSess: map[string]string{}, Skew: m.Skew, SkewBase: m.SkewBase, stampN: m.stampN, Tainted: m.Tainted}
	for k, v := range m.AllUUIDs {
		n.AllUUIDs[k] = v
	}
	for k, v := range m.SymSess {
		n.SymSess[k] = v
	}
	n.Ended = append([]string(nil), m.Ended...)
	sm := map[*MSession]*MSession{}
	for id, s := range m.Live {
		c := newMSession(s.ID, s.UUID)
		for k, v := range s.Members {
			c.Members[k] = v
		}
		for k, v := range s.IssuedPIDs {
			c.IssuedPIDs[k] = v
		}
		for k, v := range s.IssuedEIDs {
			c.IssuedEIDs[k] = v
		}
		for k, v := range s.IssuedAIDs {
			c.IssuedAIDs[k] = v
		}
		for k, v := range s.Entities {
			e := *v
			c.Entities[k] = &e
		}
		for k, v := range s.TypeByName {
			c.TypeByName[k] = v
		}
		for k, v := range s.NameByType {
			c.NameByType[k] = v
		}
		for k, v := range s.Components {
			c.Components[k] = v
		}
		for k, v := range s.Subs {
			c.Subs[k] = map[uint32]bool{}
			for p := range v {
				c.Subs[k][p] = true
			}
		}
		for k, v := range s.Actions {
			c.Actions[k] = map[string]VAction{}
			for n2, a := range v {
				c.Actions[k][n2] = a
			}
		}
		for k, v := range s.Assets {
			c.Assets[k] = v
		}
		for k, v := range s.Stale {
			c.Stale[k] = map[uint32]bool{}
			for t := range v {
				c.Stale[k][t] = true
			}
		}
		c.Quads = s.Quads
		n.Live[id] = c
		sm[s] = c
	}
	for i, c := range m.Conns {
		n.Conns[i] = &MConn{Session: sm[c.Session], PID: c.PID, Gone: c.Gone}
	}
	return n
}
