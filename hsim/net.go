package hsim

import (
	"errors"
	"io"
	"net"
	"syscall"
	"time"

	"hagallsim/simrt"
)

// Conn is the server-side end of a simulated TCP connection: two byte streams with latency,
// arbitrary re-segmentation, a finite window (backpressure), FIN, RST and stalls. A single
// stream never drops, duplicates or reorders bytes, so neither does this.
type Conn struct {
	w      *World
	id     int
	client *Client

	// client -> server
	in          []byte
	inEOF       bool
	inErr       error
	readWait    chan struct{}
	lastInAt    time.Duration
	lastSendNow time.Duration
	lastSendLat time.Duration

	// server -> client
	inflight  int // bytes accepted from the server and not yet consumed by the client
	window    int
	writeWait chan struct{}
	lastOutAt time.Duration
	outErr    error

	closed bool // closed by the server side
	Closes int

	BytesIn, BytesOut int
	wdeadline         time.Time
}

type simAddr string

func (a simAddr) Network() string { return "sim" }
func (a simAddr) String() string  { return string(a) }

var errClosed = net.ErrClosed

func (c *Conn) wakeRead() {
	if c.readWait != nil {
		close(c.readWait)
		c.readWait = nil
	}
}

func (c *Conn) wakeWrite() {
	if c.writeWait != nil {
		close(c.writeWait)
		c.writeWait = nil
	}
}

func (c *Conn) Read(p []byte) (int, error) {
	simrt.Yield("net.Read")
	for len(c.in) == 0 {
		if c.closed {
			return 0, &net.OpError{Op: "read", Net: "sim", Err: errClosed}
		}
		if c.inErr != nil {
			return 0, &net.OpError{Op: "read", Net: "sim", Err: c.inErr}
		}
		if c.inEOF {
			return 0, io.EOF
		}
		ch := make(chan struct{})
		c.readWait = ch
		simrt.Block("net.Read", ch)
	}
	n := len(c.in)
	if n > len(p) {
		n = len(p)
	}
	// re-segmentation: the kernel may hand over any prefix
	if n > 1 && c.w.netr.Bool(c.w.cfg.Net.SplitProb) {
		n = 1 + c.w.netr.Intn(n)
	}
	copy(p, c.in[:n])
	c.in = c.in[n:]
	c.BytesIn += n
	return n, nil
}

func (c *Conn) Write(p []byte) (int, error) {
	simrt.Yield("net.Write")
	total := 0
	for len(p) > 0 {
		if c.closed {
			return total, &net.OpError{Op: "write", Net: "sim", Err: errClosed}
		}
		if c.outErr != nil {
			return total, &net.OpError{Op: "write", Net: "sim", Err: c.outErr}
		}
		if !c.wdeadline.IsZero() && !time.Now().Before(c.wdeadline) {
			return total, &net.OpError{Op: "write", Net: "sim", Err: timeoutErr{}}
		}
		space := c.window - c.inflight
		if space <= 0 {
			c.w.sim.Stats["probe.write_backpressure"]++
			ch := make(chan struct{})
			c.writeWait = ch
			simrt.Block("net.Write", ch)
			continue
		}
		n := len(p)
		if n > space {
			n = space
		}
		chunk := append([]byte(nil), p[:n]...)
		p = p[n:]
		total += n
		c.inflight += n
		c.BytesOut += n
		c.w.deliverToClient(c, chunk)
	}
	return total, nil
}

func (c *Conn) Close() error {
	c.Closes++
	if c.closed {
		return &net.OpError{Op: "close", Net: "sim", Err: errClosed}
	}
	c.closed = true
	c.wakeRead()
	c.wakeWrite()
	c.w.serverClosed(c)
	return nil
}

func (c *Conn) LocalAddr() net.Addr               { return simAddr("server") }
func (c *Conn) RemoteAddr() net.Addr              { return simAddr("client") }
func (c *Conn) SetDeadline(t time.Time) error     { return c.SetWriteDeadline(t) }
func (c *Conn) SetReadDeadline(t time.Time) error { return nil }

// SetWriteDeadline: as for a TCP connection, the deadline applies to writes in progress as well
// as to future ones. (Read deadlines are not used by the code under test.)
func (c *Conn) SetWriteDeadline(t time.Time) error {
	c.wdeadline = t
	if t.IsZero() {
		return nil
	}
	if d := time.Until(t); d <= 0 {
		c.wakeWrite()
	} else {
		c.w.sim.After(d, "write-deadline", func() { c.wakeWrite() })
	}
	return nil
}

type timeoutErr struct{}

func (timeoutErr) Error() string   { return "i/o timeout" }
func (timeoutErr) Timeout() bool   { return true }
func (timeoutErr) Temporary() bool { return true }

var errReset = syscall.ECONNRESET
var _ = errors.New
