package hsim

import (
	"fmt"
	"google.golang.org/protobuf/types/known/timestamppb"
	"strings"
	"time"

	"github.com/aukilabs/hagall-common/messages/hagallpb"
)

// An "offence" step is whatever a client may do to a server (C08): malformed frames and
// messages, bursts of failing requests, stalls, abrupt closes, silence. After it the server
// must be alive, the offender either still served or ended through the normal path exactly
// once, the witnesses unaffected. The checks are model-free: the offence may contain valid
// requests the model does not follow, so the scenario ends (desync) after the offence.

type Offence struct {
	Kind     string   `json:"kind"`
	Raws     [][]byte `json:"raws,omitempty"`     // message payloads
	Frame    string   `json:"frame,omitempty"`    // bin | text | unmasked | frag | badlen | huge | ping | pong | close | garbage
	N        int      `json:"n,omitempty"`        // burst size / traffic volume
	Then     string   `json:"then,omitempty"`     // fin | rst | resume | none
	Witness  int      `json:"witness,omitempty"`  // connection that generates traffic
	Cut      int      `json:"cut,omitempty"`      // bytes of the last frame that are sent before the connection dies
	Poses    int      `json:"poses,omitempty"`    // stall: pose updates of the witness, one per frame, behind the relayed custom messages
	Switcher int      `json:"switcher,omitempty"` // stall: connection (member of the session) that switches away while the witness's relays are held up
	Skew     int64    `json:"skew,omitempty"`     // silence / keepalive: seconds by which the client's clock (the timestamps it writes) is off
}

func (r *runner) sendFramed(c *Client, payload []byte, frame string) {
	switch frame {
	case "text":
		c.SendRaw(encodeFrame(opText, true, payload, c.maskKey(), -1))
	case "unmasked":
		c.SendRaw(encodeFrame(opBin, true, payload, nil, -1))
	case "frag":
		h := len(payload) / 2
		c.SendRaw(encodeFrame(opBin, false, payload[:h], c.maskKey(), -1))
		c.SendRaw(encodeFrame(opCont, true, payload[h:], c.maskKey(), -1))
	case "badlen":
		c.SendRaw(encodeFrame(opBin, true, payload, c.maskKey(), int64(len(payload))+1000))
	case "huge":
		c.SendRaw(encodeFrame(opBin, true, payload, c.maskKey(), 1<<40))
	case "ping":
		c.SendRaw(encodeFrame(opPing, true, payload[:min(len(payload), 100)], c.maskKey(), -1))
	case "pong":
		c.SendRaw(encodeFrame(opPong, true, payload[:min(len(payload), 100)], c.maskKey(), -1))
	case "close":
		c.SendRaw(encodeFrame(opClose, true, []byte{3, 232}, c.maskKey(), -1))
	case "garbage":
		c.SendRaw(payload)
	default:
		c.SendPayload(payload)
	}
}

// responsive: a ping request must be answered within the budget.
func (r *runner) responsive(c *Client) bool {
	if c.Ended() || c.sentFIN {
		return false
	}
	rid := c.NextReqID()
	c.Mark()
	c.Send(&hagallpb.Request{Type: hagallpb.MsgType_MSG_TYPE_PING_REQUEST, Timestamp: now(), RequestId: rid})
	r.quiesce()
	for _, m := range c.Since() {
		if m.Type == 39 && m.ReqID == rid {
			return true
		}
	}
	return false
}

func (r *runner) offence(st *Step) {
	o := st.Off
	c := r.client(st.Conn)
	if r.stop() || o == nil {
		return
	}
	if r.m.conn(st.Conn).Gone || c.Ended() || c.sentFIN {
		r.res.Skipped++
		return
	}
	r.res.Executed++
	r.res.Triggers["offence:"+o.Kind]++
	r.res.Triggers["offence"]++
	mc := r.m.conn(st.Conn)
	wasPID := mc.PID
	var wasSession *MSession
	if mc.Session != nil {
		wasSession = mc.Session
		r.res.Triggers["offender_joined"]++
	}
	r.desync = true
	r.markAll()
	clientClosed := false
	mustStay := false
	sim := r.w.sim
	idle := r.w.cfg.IdleTimeout

	switch o.Kind {
	case "frames":
		for _, p := range o.Raws {
			r.sendFramed(c, p, o.Frame)
		}
		if o.Frame == "ping" || o.Frame == "pong" {
			mustStay = true
		}
		sim.Stats["fault.malformed_frame_or_message"] += len(o.Raws)
	case "burst_fail":
		for i := 0; i < o.N; i++ {
			p := o.Raws[i%len(o.Raws)]
			c.SendPayload(p)
		}
		sim.Stats["fault.failing_request_burst"]++
		if o.N >= 9 {
			sim.Stats["probe.burst_ge_9_failures"]++
		}
	case "midframe":
		full := encodeFrame(opBin, true, o.Raws[0], c.maskKey(), -1)
		cut := o.Cut % len(full)
		c.SendRaw(full[:cut])
		sim.Stats["fault.close_mid_frame"]++
		if o.Then == "rst" {
			c.Reset()
		} else {
			c.CloseFIN()
		}
		clientClosed = true
	case "update_then_close":
		// pose / component updates waiting for the next frame when the connection dies
		for _, p := range o.Raws {
			c.SendPayload(p)
		}
		sim.Stats["fault.close_with_updates_pending"]++
		if o.Then == "rst" {
			c.Reset()
		} else {
			c.CloseFIN()
		}
		clientClosed = true
	case "close_amid":
		// the connection dies at the very instant the other members are busy
		w := r.clients[o.Witness]
		if w != nil && !w.Ended() {
			for _, p := range o.Raws {
				w.SendPayload(p)
			}
		}
		sim.Stats["fault.close_amid_traffic"]++
		if o.Then == "rst" {
			c.Reset()
		} else {
			c.CloseFIN()
		}
		clientClosed = true
	case "silence":
		// nothing for longer than the idle timeout: must be disconnected
		sim.Stats["fault.silence_past_idle_timeout"]++
		if o.Skew != 0 {
			// its last message carries a timestamp from a clock that is off: irrelevant to idleness
			sim.Stats["fault.client_clock_skew"]++
			c.Send(&hagallpb.Request{Type: hagallpb.MsgType_MSG_TYPE_PING_REQUEST, Timestamp: timestamppb.New(time.Now().Add(time.Duration(o.Skew) * time.Second)), RequestId: c.NextReqID()})
			r.quiesce()
		}
		if o.Then == "stalled" {
			// ... and it has stopped reading as well: a few relays fill its socket window, the
			// server's sender blocks in a write, and the idle disconnect must still go through
			sim.Stats["fault.silent_and_not_reading"]++
			c.Stall()
			if w := r.clients[o.Witness]; w != nil && !w.Ended() && wasSession != nil && r.m.conn(o.Witness).Session == wasSession {
				for i := 0; i < o.N; i++ {
					w.Send(&hagallpb.CustomMessage{Type: hagallpb.MsgType_MSG_TYPE_CUSTOM_MESSAGE, Timestamp: now(), Body: []byte(fmt.Sprintf("idle-%d-%s", i, strings.Repeat("y", 200)))})
				}
				r.quiesce()
			}
		}
		sim.RunFor(idle + idle/4 + time.Second)
		if o.Then == "stalled" {
			r.quiesce()
			// (asserted only while the connection's send queue of 512 cannot fill up with the
			// server's own sync-clock messages before the idle timeout: a main loop blocked on
			// its own full queue is backpressure, as in the stall/fail case)
			syncs := int((idle + idle/4 + time.Second) / r.w.cfg.SyncClock)
			if syncs+o.N+20 < 400 && c.InnerEntered > 0 && !c.HandleReturned && c.ServePanic == "" {
				r.v("C08", "idle-not-disconnected", "%s stopped reading and stayed silent for %v (idle timeout %v): its handler has not returned (%s)", c.Label, idle+idle/4+time.Second, idle, strings.Join(sim.Describe(), "; "))
			}
			c.Reset() // the client gives up; the rest of the clean-up is judged as usual
			clientClosed = true
			r.quiesce()
		}
	case "boundary":
		// silent for exactly the idle timeout, then a message that reaches the server at the
		// very instant its idle timer fires: the connection may be ended as idle or served,
		// but not left hanging
		sim.Stats["probe.message_at_idle_deadline"]++
		c.Send(&hagallpb.Request{Type: hagallpb.MsgType_MSG_TYPE_PING_REQUEST, Timestamp: now(), RequestId: c.NextReqID()})
		sim.RunFor(idle)
		for i := 0; i < 1+o.N && !c.Ended(); i++ {
			c.Send(&hagallpb.Request{Type: hagallpb.MsgType_MSG_TYPE_PING_REQUEST, Timestamp: now(), RequestId: c.NextReqID()})
		}
		r.quiesce()
	case "keepalive":
		// a ping request every timeout/2 for three timeouts: must not be disconnected
		for i := 0; i < 6 && !c.Ended(); i++ {
			sim.RunFor(idle / 2)
			c.Send(&hagallpb.Request{Type: hagallpb.MsgType_MSG_TYPE_PING_REQUEST, Timestamp: timestamppb.New(time.Now().Add(time.Duration(o.Skew) * time.Second)), RequestId: c.NextReqID()})
		}
		if o.Skew != 0 {
			sim.Stats["fault.client_clock_skew"]++
		}
		mustStay = true
		sim.Stats["probe.keepalive_across_idle_timeouts"]++
	case "stall":
		// the offender stops reading; a witness in its session produces traffic; then the
		// offender resumes, closes or resets
		w := r.clients[o.Witness]
		c.Stall()
		var sentBodies []string
		if w != nil && !w.Ended() && r.m.conn(o.Witness).Session == wasSession && wasSession != nil {
			for i := 0; i < o.N; i++ {
				body := fmt.Sprintf("bp-%d-%s", i, strings.Repeat("x", i%40))
				sentBodies = append(sentBodies, body)
				w.Send(&hagallpb.CustomMessage{Type: hagallpb.MsgType_MSG_TYPE_CUSTOM_MESSAGE, Timestamp: now(), Body: []byte(body)})
			}
		}
		// ... and moves an entity of its own, one pose per frame
		var poseEnt uint32
		var sentPoses []float32
		if o.Poses > 0 && len(sentBodies) > 0 {
			ms, pid := r.m.conn(o.Witness).Session, r.m.conn(o.Witness).PID
			for _, id := range sortedKeysE(ms.Entities) {
				if ms.Entities[id].Owner == pid {
					poseEnt = id
					break
				}
			}
			for i := 0; poseEnt != 0 && i < o.Poses; i++ {
				p := posePB(float32(5000 + i))
				sentPoses = append(sentPoses, p.Px)
				w.Send(&hagallpb.EntityUpdatePose{Type: hagallpb.MsgType_MSG_TYPE_ENTITY_UPDATE_POSE, Timestamp: now(), EntityId: poseEnt, Pose: p})
				sim.RunFor(r.w.cfg.FrameDuration + r.w.cfg.Net.MinLat + r.w.cfg.Net.Jitter + time.Millisecond)
				ms.Entities[poseEnt].Pose = poseOf(p)
			}
		}
		// ... and a third member switches to another session while those relays are held up by
		// the reader that stopped: from its join answer on it must see nothing of the old session
		var switcher *Client
		finishSwitch := func() {}
		if o.Switcher > 0 && len(sentBodies) > 0 {
			if x := r.clients[o.Switcher]; x != nil && !x.Ended() && r.m.conn(o.Switcher).Session == wasSession {
				switcher = x
				sim.RunFor(r.w.cfg.Net.MinLat + r.w.cfg.Net.Jitter + time.Millisecond)
				st := &Step{Conn: o.Switcher, Op: "join", Sess: "new"}
				x.Mark()
				p := r.m.Build(st, o.Switcher, x.NextReqID())
				x.Send(p.Req)
				sim.RunFor(10 * (r.w.cfg.Net.MinLat + r.w.cfg.Net.Jitter + time.Millisecond))
				// (the model follows once the answer is there: finishSwitch)
				finishSwitch = func() {
					if p != nil {
						p.Finish(r.m, x.Since())
						p = nil
					}
				}
				sim.Stats["fault.switch_while_relays_held_up"]++
			}
		}
		// the offender also has requests of its own outstanding
		var myRIDs []uint32
		for i := 0; i < o.Cut; i++ {
			rid := c.NextReqID()
			myRIDs = append(myRIDs, rid)
			c.Send(&hagallpb.Request{Type: hagallpb.MsgType_MSG_TYPE_PING_REQUEST, Timestamp: now(), RequestId: rid})
		}
		sim.Stats["fault.client_read_stall_traffic"] += len(sentBodies) + len(myRIDs)
		r.quiesce()
		switch o.Then {
		case "resume":
			c.Resume()
			r.quiesce()
			finishSwitch()
			if !c.Ended() {
				var got []string
				answered := map[uint32]int{}
				for _, m := range c.Since() {
					if b, ok := m.Msg.(*hagallpb.CustomMessageBroadcast); ok && strings.HasPrefix(string(b.Body), "bp-") {
						got = append(got, string(b.Body))
					}
					if m.Type == 39 {
						answered[m.ReqID]++
					}
				}
				if strings.Join(got, ",") != strings.Join(sentBodies, ",") {
					d := fmt.Sprintf("%s stopped reading while %d custom messages were relayed to it and then resumed: it received %d of them (first difference at %d)", c.Label, len(sentBodies), len(got), firstDiff(got, sentBodies))
					r.v("C02", "relay-missing", "%s", d)
					r.v("C08", "slow-reader-lost-messages", "%s", d)
					r.v("C09", "request-unanswered", "%s", d)
				}
				if switcher != nil {
					joinedAt := -1
					for i, m := range switcher.Since() {
						if m.Type == 4 {
							joinedAt = i
						}
						if b, ok := m.Msg.(*hagallpb.CustomMessageBroadcast); ok && joinedAt >= 0 && strings.HasPrefix(string(b.Body), "bp-") {
							d := fmt.Sprintf("%s switched to a new session while relays of its old session were held up by a reader that had stopped; after the answer to its join it was still sent custom message %q of the old session", switcher.Label, string(b.Body))
							r.v("C03", "foreign-effect", "%s", d)
							r.v("C02", "relay-extra", "%s", d)
							r.v("C08", "slow-reader-lost-messages", "%s", d)
							break
						}
					}
				}
				if len(sentPoses) > 0 {
					var gotPoses []float32
					for _, m := range c.Since() {
						if b, ok := m.Msg.(*hagallpb.EntityUpdatePoseBroadcast); ok && b.EntityId == poseEnt && b.GetPose().GetPx() >= 5000 {
							gotPoses = append(gotPoses, b.GetPose().GetPx())
						}
					}
					bad := len(gotPoses) == 0 || gotPoses[len(gotPoses)-1] != sentPoses[len(sentPoses)-1]
					for i := 1; i < len(gotPoses); i++ {
						if gotPoses[i] <= gotPoses[i-1] {
							bad = true
						}
					}
					if bad {
						d := fmt.Sprintf("%s stopped reading while entity %d was moved through poses %v (one per frame, behind %d relayed custom messages) and then resumed: it was relayed %v (must be an order preserving selection ending with the last)", c.Label, poseEnt, sentPoses, len(sentBodies), gotPoses)
						r.v("C11", "pose-last-not-relayed", "%s", d)
						r.v("C02", "relay-missing", "%s", d)
						r.v("C08", "slow-reader-lost-messages", "%s", d)
					}
				}
				for _, rid := range myRIDs {
					if answered[rid] != 1 {
						d := fmt.Sprintf("%s pipelined %d ping requests while not reading and then resumed: request %d was answered %d times", c.Label, len(myRIDs), rid, answered[rid])
						r.v("C04", "answer-missing", "%s", d)
						r.v("C09", "request-unanswered", "%s", d)
						break
					}
				}
				mustStay = true
			}
		case "fail":
			// still not reading, the client sends a request the server must refuse and end the
			// connection for - and keeps its socket open. The server cannot write to it any
			// more; it must get rid of the connection all the same.
			sim.Stats["fault.failing_request_from_stalled_reader"]++
			for _, raw := range o.Raws {
				c.SendPayload(raw)
			}
			r.quiesce()
			sim.RunFor(30 * time.Second)
			r.quiesce()
			finishSwitch()
			// Asserted only while the connection's send queue (512 messages) cannot be full: with
			// a full queue the connection's own main loop is blocked answering into it and never
			// gets to see the failing request - that is backpressure, and nothing in the
			// statements obliges the server to give up on a reader that is merely slow.
			if len(sentBodies)+len(myRIDs)+8 < 400 && c.InnerEntered > 0 && !c.HandleReturned && c.ServePanic == "" {
				d := fmt.Sprintf("%s stopped reading with %d relays and %d answers outstanding (fewer than its send queue holds), then sent a request that ends the connection, and keeps its socket open: 30 s later its handler has not returned (%s)", c.Label, len(sentBodies), len(myRIDs), strings.Join(sim.Describe(), "; "))
				r.v("C08", "handler-not-returned", "%s", d)
			}
			// the rest of the clean-up is judged after the client has given up
			c.Reset()
			clientClosed = true
			r.quiesce()
		case "fin":
			c.CloseFull() // unread data pending: the kernel resets the peer's writes
			clientClosed = true
			r.quiesce()
			finishSwitch()
		case "rst":
			c.Reset()
			clientClosed = true
			r.quiesce()
			finishSwitch()
		}
	}
	r.quiesce()

	ended := c.Ended() || clientClosed
	if o.Kind == "silence" && o.Then != "stalled" && !c.Ended() {
		r.v("C08", "idle-not-disconnected", "%s stayed silent for %v (idle timeout %v) and was not disconnected", c.Label, idle+idle/4+time.Second, idle)
	}
	if mustStay && c.Ended() {
		r.v("C08", "active-disconnected", "%s was disconnected (%s) although it did nothing wrong (%s)", c.Label, c.DisconnectErr, o.Kind+"/"+o.Frame+o.Then)
	}
	streamBroken := o.Kind == "frames" && (o.Frame == "badlen" || o.Frame == "huge" || o.Frame == "garbage")
	if !ended && !streamBroken {
		// still open: it must still be served (unless the client's own framing lie left the
		// server legitimately waiting for the rest of a frame)
		if !r.responsive(c) && !c.Ended() {
			r.v("C08", "handler-not-returned", "after offence %s/%s %s is neither disconnected nor served (a ping request was not answered): %s", o.Kind, o.Frame, c.Label, strings.Join(sim.Describe(), "; "))
		}
		ended = c.Ended()
	}
	if ended {
		// give the server's own teardown time (it may wait for a write to fail), then check the normal path
		r.quiesce()
		if c.InnerEntered > 0 && !c.HandleReturned && c.ServePanic == "" {
			r.v("C08", "handler-not-returned", "after offence %s/%s%s the handler of %s has not returned: %s", o.Kind, o.Frame, o.Then, c.Label, strings.Join(sim.Describe(), "; "))
		} else if c.InnerEntered > 0 && c.Disconnects != 1 && c.ServePanic == "" {
			r.v("C08", "disconnect-count", "after offence %s/%s%s HandleDisconnect of %s ran %d times", o.Kind, o.Frame, o.Then, c.Label, c.Disconnects)
		}
		if wasSession != nil {
			r.w.sim.Inspect(func() {
				ss, ok := r.w.Sessions.GetByGlobalID(wasSession.ID)
				if !ok || ss.SessionUUID != wasSession.UUID {
					return
				}
				for _, p := range ss.GetParticipants() {
					if p.ID == wasPID {
						r.v("C08", "ghost-participant", "%s is gone but participant %d is still a member of session %s", c.Label, wasPID, wasSession.ID)
						r.v("C06", "entity-survived", "%s is gone but participant %d is still a member of session %s", c.Label, wasPID, wasSession.ID)
					}
				}
				for _, e := range ss.Entities() {
					if e.ParticipantID == wasPID && !e.Persist {
						r.v("C08", "ghost-participant", "%s is gone but its non-persistent entity %d is still in session %s", c.Label, e.ID, wasSession.ID)
						r.v("C06", "entity-survived", "%s is gone but its non-persistent entity %d is still in session %s", c.Label, e.ID, wasSession.ID)
					}
				}
			})
		}
	}
	// the witnesses (same session, other session) must still be served
	for _, ci := range r.sortedClients() {
		w := r.clients[ci]
		if w == c || w.Ended() || w.sentFIN || !w.reading {
			continue
		}
		if !r.responsive(w) {
			r.v("C08", "witness-starved", "after offence %s/%s%s by %s, witness %s is no longer served: %s", o.Kind, o.Frame, o.Then, c.Label, w.Label, strings.Join(sim.Describe(), "; "))
			r.v("C09", "deadlock", "after offence %s/%s%s by %s, witness %s is no longer served: %s", o.Kind, o.Frame, o.Then, c.Label, w.Label, strings.Join(sim.Describe(), "; "))
			break
		}
	}
	r.inBlock = true
	r.checkBeliefs()
	r.checkViews()
	r.inBlock = false
}

func firstDiff(a, b []string) int {
	for i := 0; i < len(a) && i < len(b); i++ {
		if a[i] != b[i] {
			return i
		}
	}
	return min(len(a), len(b))
}
