package hsim

import (
	"fmt"
	"sort"
	"time"

	"github.com/aukilabs/hagall-common/messages/dagazpb"
	"github.com/aukilabs/hagall-common/messages/hagallpb"
	"github.com/aukilabs/hagall-common/messages/odalpb"
	"github.com/aukilabs/hagall-common/messages/vikjapb"
	"google.golang.org/protobuf/proto"
	"google.golang.org/protobuf/types/known/timestamppb"
)

// Ref is a symbolic reference resolved against the model when the step is issued.
type Ref struct {
	K string `json:"k,omitempty"` // own | other | any | of | gone | unknown | zero | foreign | lit ; participants: member | self | stranger
	I int    `json:"i,omitempty"`
}

// Step is one scenario step. Flat on purpose: it is the unit of shrinking and of replay files.
type Step struct {
	Conn    int           `json:"c"`
	Op      string        `json:"op"`
	Block   int           `json:"block,omitempty"` // >0: released together with the neighbours carrying the same number
	Pipe    bool          `json:"pipe,omitempty"`  // do not wait for quiescence after this step
	Sess    string        `json:"sess,omitempty"`  // join: S0..S2 | unknown | current | garbage
	Ent     Ref           `json:"ent,omitempty"`
	Typ     Ref           `json:"typ,omitempty"`
	Name    string        `json:"name,omitempty"`
	Persist bool          `json:"persist,omitempty"`
	Flag    int32         `json:"flag,omitempty"`
	NoPose  bool          `json:"nopose,omitempty"`
	Seq     float32       `json:"seq,omitempty"`
	BodyLen int           `json:"bodylen,omitempty"`
	Fill    byte          `json:"fill,omitempty"`
	Rcpts   []Ref         `json:"rcpts,omitempty"`
	TSKind  string        `json:"tskind,omitempty"` // action timestamp: now | equal | older | future | zero | negative | nil
	Data    string        `json:"data,omitempty"`
	N       int           `json:"n,omitempty"`
	Dur     time.Duration `json:"dur,omitempty"`
	Variant string        `json:"variant,omitempty"`
	Quads   []QuadSpec    `json:"quads,omitempty"`
	F       []float32     `json:"f,omitempty"`
	NoRID   bool          `json:"norid,omitempty"`
	Off     *Offence      `json:"off,omitempty"`
	Raw     []byte        `json:"raw,omitempty"`
	RID     uint32        `json:"rid,omitempty"` // twin executions re-issue joins under the request id of the first execution
}

type QuadSpec struct {
	C [3]float32 `json:"c"`
	E [3]float32 `json:"e"`
}

// ---------------------------------------------------------------------------------------------
// resolution of symbolic references

func (m *Model) resolveEntity(c *MConn, r Ref) uint32 {
	s := c.Session
	switch r.K {
	case "zero":
		return 0
	case "lit":
		return uint32(r.I)
	case "unknown":
		return 900000 + uint32(r.I)
	case "foreign":
		// an id that exists in another live session but not in ours
		for _, id := range sortedSessionIDs(m.Live) {
			o := m.Live[id]
			if o == s {
				continue
			}
			for _, e := range sortedKeysE(o.Entities) {
				if s == nil || s.Entities[e] == nil {
					return e
				}
			}
		}
		return 900000 + uint32(r.I)
	}
	if s == nil {
		return 1 + uint32(r.I)%3
	}
	var pool []uint32
	switch r.K {
	case "own":
		for _, id := range sortedKeysE(s.Entities) {
			if s.Entities[id].Owner == c.PID {
				pool = append(pool, id)
			}
		}
	case "other":
		for _, id := range sortedKeysE(s.Entities) {
			if s.Entities[id].Owner != c.PID {
				pool = append(pool, id)
			}
		}
	case "of":
		// entity I%8 of connection I/8 (what "own" I%8 means to that connection), so that several
		// requests of a block meet on one entity
		if oc := m.conn(r.I / 8); oc.Session == s {
			for _, id := range sortedKeysE(s.Entities) {
				if s.Entities[id].Owner == oc.PID {
					pool = append(pool, id)
				}
			}
		}
		if len(pool) > 0 {
			return pool[(r.I%8)%len(pool)]
		}
	case "gone":
		for id := range s.IssuedEIDs {
			if s.Entities[id] == nil {
				pool = append(pool, id)
			}
		}
		sort.Slice(pool, func(i, j int) bool { return pool[i] < pool[j] })
	default: // any
		pool = sortedKeysE(s.Entities)
	}
	if len(pool) == 0 {
		if r.K == "own" || r.K == "other" || r.K == "any" || r.K == "of" || r.K == "" {
			// fall back to any existing entity, else an unknown id
			pool = sortedKeysE(s.Entities)
		}
		if len(pool) == 0 {
			return 900000 + uint32(r.I)
		}
	}
	return pool[r.I%len(pool)]
}

var typeNames = []string{"alpha", "beta", "gamma", "delta"}

func (m *Model) resolveType(c *MConn, r Ref) uint32 {
	s := c.Session
	switch r.K {
	case "zero":
		return 0
	case "lit":
		return uint32(r.I)
	case "unknown":
		return 800000 + uint32(r.I)
	}
	if s == nil {
		return 1 + uint32(r.I)%3
	}
	// registered type by name index; unregistered names resolve to an unknown id
	name := typeNames[r.I%len(typeNames)]
	if id, ok := s.TypeByName[name]; ok {
		return id
	}
	if len(s.TypeByName) > 0 && r.K != "exact" {
		var ids []uint32
		for _, id := range s.TypeByName {
			ids = append(ids, id)
		}
		sort.Slice(ids, func(i, j int) bool { return ids[i] < ids[j] })
		return ids[r.I%len(ids)]
	}
	return 800000 + uint32(r.I)
}

func (m *Model) resolveParticipants(c *MConn, rs []Ref) []uint32 {
	var out []uint32
	s := c.Session
	for _, r := range rs {
		switch r.K {
		case "self":
			out = append(out, c.PID)
		case "stranger":
			out = append(out, 700000+uint32(r.I))
		case "zero":
			out = append(out, 0)
		case "gone":
			if s != nil {
				var pool []uint32
				for p := range s.IssuedPIDs {
					if _, ok := s.Members[p]; !ok {
						pool = append(pool, p)
					}
				}
				sort.Slice(pool, func(i, j int) bool { return pool[i] < pool[j] })
				if len(pool) > 0 {
					out = append(out, pool[r.I%len(pool)])
					continue
				}
			}
			out = append(out, 700000+uint32(r.I))
		default: // member
			if s != nil {
				o := s.others(c.PID)
				if len(o) > 0 {
					out = append(out, o[r.I%len(o)])
					continue
				}
			}
			out = append(out, 700000+uint32(r.I))
		}
	}
	return out
}

// resolveComp: references to an existing component resolve both ids at once.
func (m *Model) resolveComp(c *MConn, typ, ent Ref) (uint32, uint32) {
	if typ.K == "comp" && c.Session != nil && len(c.Session.Components) > 0 {
		keys := sortedCKeys(c.Session.Components)
		k := keys[typ.I%len(keys)]
		return k.Type, k.Entity
	}
	return m.resolveType(c, typ), m.resolveEntity(c, ent)
}

func sortedSessionIDs(m map[string]*MSession) []string {
	out := make([]string, 0, len(m))
	for k := range m {
		out = append(out, k)
	}
	sort.Strings(out)
	return out
}

func makeBody(n int, fill byte) []byte {
	b := make([]byte, n)
	for i := range b {
		b[i] = fill + byte(i*7)
	}
	return b
}

func posePB(seq float32) *hagallpb.Pose {
	return &hagallpb.Pose{Px: seq, Py: seq / 2, Pz: -seq, Rx: 0.25, Ry: 0.5, Rz: 0.75, Rw: 1}
}

// Pending is a request that has been built and sent; Finish turns what came back into the
// expected streams and the model update.
type Pending struct {
	Step   *Step
	Conn   int
	RID    uint32
	Req    proto.Message
	TS     *timestamppb.Timestamp
	Finish func(m *Model, got []*RecvMsg) *Outcome
}

func findByRID(got []*RecvMsg, rid uint32, typ int32) *RecvMsg {
	for _, g := range got {
		if g.ReqID == rid && g.Type == typ && g.Msg != nil {
			return g
		}
	}
	return nil
}

// notJoined is the admissible behaviour for a session-scoped request from a connection that
// is in no session: an error answer, silence, or the end of the connection; never an effect.
func notJoined(rid uint32, kind string) *Outcome {
	return &Outcome{Kind: kind + "/unjoined", MayEnd: true, Props: []string{"C04", "C03"},
		Req: []Exp{{Optional: true, Desc: "optional error answer", Pred: func(m proto.Message) string {
			e, ok := m.(*hagallpb.ErrorResponse)
			if !ok {
				return fmt.Sprintf("a request outside a session was answered with %T", m)
			}
			if e.RequestId != rid {
				return "error answer with a foreign request id"
			}
			return ""
		}}}}
}

// Build resolves the step against the current model and returns the request to send.
func (m *Model) Build(st *Step, ci int, rid uint32) *Pending {
	c := m.conn(ci)
	ts := m.stamp(ci)
	if st.RID != 0 {
		rid = st.RID
	}
	p := &Pending{Step: st, Conn: ci, RID: rid, TS: ts}
	if st.NoRID {
		rid = 0
		p.RID = 0
	}
	s := c.Session
	switch st.Op {
	case "join":
		sid := ""
		switch st.Sess {
		case "unknown":
			sid = "srv7xdead"
		case "garbage":
			sid = "\x00%zz/../"
		case "current":
			if s != nil {
				sid = s.ID
			} else {
				sid = "srv7xdead"
			}
		case "new", "":
			sid = ""
		default:
			// a symbolic session is bound to a session identity (uuid), not to a recyclable id
			if u, ok := m.SymSess[st.Sess]; ok {
				for _, id := range sortedSessionIDs(m.Live) {
					if m.Live[id].UUID == u {
						sid = id
					}
				}
			}
		}
		p.Req = &hagallpb.ParticipantJoinRequest{Type: hagallpb.MsgType_MSG_TYPE_PARTICIPANT_JOIN_REQUEST, Timestamp: ts, RequestId: rid, SessionId: sid}
		p.Finish = func(m *Model, got []*RecvMsg) *Outcome { return m.finishJoin(st, ci, rid, ts, sid, got) }

	case "entity_add":
		req := &hagallpb.EntityAddRequest{Type: hagallpb.MsgType_MSG_TYPE_ENTITY_ADD_REQUEST, Timestamp: ts, RequestId: rid, Persist: st.Persist, Flag: hagallpb.EntityFlag(st.Flag)}
		if !st.NoPose {
			req.Pose = posePB(st.Seq)
		}
		p.Req = req
		p.Finish = func(m *Model, got []*RecvMsg) *Outcome {
			c := m.conn(ci)
			s := c.Session
			_, _ = c, s
			if s == nil {
				return notJoined(rid, "entity_add")
			}
			o := &Outcome{Kind: "entity_add", Props: []string{"C04", "C02", "C10"}}
			r := findByRID(got, rid, 9)
			if r == nil {
				o.Req = []Exp{one(&hagallpb.EntityAddResponse{Type: hagallpb.MsgType_MSG_TYPE_ENTITY_ADD_RESPONSE, RequestId: rid, EntityId: 0})}
				o.StateOnly = true
				return o
			}
			id := r.Msg.(*hagallpb.EntityAddResponse).EntityId
			if id == 0 || s.IssuedEIDs[id] {
				o.viol("C10", "entity-id-reissued", "entity id %d issued twice in session %s", id, s.UUID)
			}
			s.IssuedEIDs[id] = true
			e := &MEntity{ID: id, Owner: c.PID, Persist: st.Persist, Flag: st.Flag}
			if !st.NoPose {
				e.Pose = poseOf(posePB(st.Seq))
			}
			s.Entities[id] = e
			o.Accepted = true
			o.Req = []Exp{one(&hagallpb.EntityAddResponse{Type: hagallpb.MsgType_MSG_TYPE_ENTITY_ADD_RESPONSE, RequestId: rid, EntityId: id})}
			for _, q := range s.others(c.PID) {
				o.other(s.Members[q], one(&hagallpb.EntityAddBroadcast{Type: hagallpb.MsgType_MSG_TYPE_ENTITY_ADD_BROADCAST, OriginTimestamp: ts, Entity: s.entityPB(e)}))
			}
			return o
		}

	case "entity_delete":
		id := m.resolveEntity(c, st.Ent)
		p.Req = &hagallpb.EntityDeleteRequest{Type: hagallpb.MsgType_MSG_TYPE_ENTITY_DELETE_REQUEST, Timestamp: ts, RequestId: rid, EntityId: id}
		p.Finish = func(m *Model, got []*RecvMsg) *Outcome {
			c := m.conn(ci)
			s := c.Session
			_, _ = c, s
			if s == nil {
				return notJoined(rid, "entity_delete")
			}
			o := &Outcome{Kind: "entity_delete", Props: []string{"C04", "C05", "C02", "C12"}}
			e := s.Entities[id]
			switch {
			case e == nil && id == 0:
				o.Req = []Exp{errResp(rid, eBad, eNotFound)}
			case e == nil:
				o.Req = []Exp{errResp(rid, eNotFound)}
			case e.Owner != c.PID:
				o.Req = []Exp{errResp(rid, eUnauth)}
			default:
				s.dropEntity(id)
				o.Accepted = true
				o.Req = []Exp{one(&hagallpb.EntityDeleteResponse{Type: hagallpb.MsgType_MSG_TYPE_ENTITY_DELETE_RESPONSE, RequestId: rid})}
				for _, q := range s.others(c.PID) {
					o.other(s.Members[q], one(&hagallpb.EntityDeleteBroadcast{Type: hagallpb.MsgType_MSG_TYPE_ENTITY_DELETE_BROADCAST, OriginTimestamp: ts, EntityId: id}))
				}
			}
			return o
		}

	case "pose":
		id := m.resolveEntity(c, st.Ent)
		req := &hagallpb.EntityUpdatePose{Type: hagallpb.MsgType_MSG_TYPE_ENTITY_UPDATE_POSE, Timestamp: ts, EntityId: id}
		if !st.NoPose {
			req.Pose = posePB(st.Seq)
			if st.Variant == "repeat" && s != nil && s.Entities[id] != nil {
				// resend the pose the entity already has
				e := s.Entities[id]
				req.Pose = s.entityPB(e).Pose
			}
		}
		p.Req = req
		p.RID = 0
		p.Finish = func(m *Model, got []*RecvMsg) *Outcome {
			c := m.conn(ci)
			s := c.Session
			_, _ = c, s
			if s == nil {
				m.Tainted[ci] = true
				return notJoined(0, "pose")
			}
			o := &Outcome{Kind: "pose", Props: []string{"C11", "C05", "C02"}}
			e := s.Entities[id]
			if e == nil || e.Owner != c.PID || st.NoPose {
				return o // dropped without any effect
			}
			e.Pose = poseOf(req.Pose)
			o.Accepted = true
			for _, q := range s.others(c.PID) {
				o.other(s.Members[q], one(&hagallpb.EntityUpdatePoseBroadcast{Type: hagallpb.MsgType_MSG_TYPE_ENTITY_UPDATE_POSE_BROADCAST, OriginTimestamp: ts, EntityId: id, Pose: req.Pose}))
			}
			return o
		}

	case "custom":
		body := makeBody(st.BodyLen, st.Fill)
		rc := m.resolveParticipants(c, st.Rcpts)
		p.Req = &hagallpb.CustomMessage{Type: hagallpb.MsgType_MSG_TYPE_CUSTOM_MESSAGE, Timestamp: ts, ParticipantIds: rc, Body: body}
		p.RID = 0
		p.Finish = func(m *Model, got []*RecvMsg) *Outcome {
			c := m.conn(ci)
			s := c.Session
			_, _ = c, s
			if s == nil {
				return notJoined(0, "custom")
			}
			o := &Outcome{Kind: "custom", Props: []string{"C14", "C02", "C04"}}
			if len(body) > 10240 {
				o.Req = []Exp{errResp(0, eTooLarge)}
				return o
			}
			o.Accepted = true
			bc := &hagallpb.CustomMessageBroadcast{Type: hagallpb.MsgType_MSG_TYPE_CUSTOM_MESSAGE_BROADCAST, OriginTimestamp: ts, ParticipantId: c.PID, Body: body}
			if len(rc) == 0 {
				for _, q := range s.others(c.PID) {
					o.other(s.Members[q], one(bc))
				}
				return o
			}
			seen := map[uint32]bool{}
			for _, q := range rc {
				if q == c.PID || seen[q] {
					continue
				}
				seen[q] = true
				if ci2, ok := s.Members[q]; ok {
					o.other(ci2, one(bc))
				}
			}
			return o
		}

	case "type_add":
		name := st.Name
		p.Req = &hagallpb.EntityComponentTypeAddRequest{Type: hagallpb.MsgType_MSG_TYPE_ENTITY_COMPONENT_TYPE_ADD_REQUEST, Timestamp: ts, RequestId: rid, EntityComponentTypeName: name}
		p.Finish = func(m *Model, got []*RecvMsg) *Outcome {
			c := m.conn(ci)
			s := c.Session
			_, _ = c, s
			if s == nil {
				if name == "" {
					return &Outcome{Kind: "type_add/unjoined", MayEnd: true, Props: []string{"C04"}, Req: []Exp{{Optional: true, Pred: func(proto.Message) string { return "" }}}}
				}
				return notJoined(rid, "type_add")
			}
			o := &Outcome{Kind: "type_add", Props: []string{"C04", "C12", "C10"}}
			if name == "" {
				o.Req = []Exp{errResp(rid, eBad)}
				return o
			}
			r := findByRID(got, rid, 19)
			want := s.TypeByName[name]
			if r != nil {
				id := r.Msg.(*hagallpb.EntityComponentTypeAddResponse).EntityComponentTypeId
				if want == 0 {
					if id == 0 || s.NameByType[id] != "" {
						o.viol("C10", "type-not-bijective", "type id %d given to %q is already the id of %q", id, name, s.NameByType[id])
						o.viol("C12", "type-registry", "type id %d given to %q is already the id of %q", id, name, s.NameByType[id])
					}
					s.TypeByName[name] = id
					s.NameByType[id] = name
					want = id
				}
			}
			o.Req = []Exp{one(&hagallpb.EntityComponentTypeAddResponse{Type: hagallpb.MsgType_MSG_TYPE_ENTITY_COMPONENT_TYPE_ADD_RESPONSE, RequestId: rid, EntityComponentTypeId: want})}
			return o
		}

	case "type_get_name":
		id := m.resolveType(c, st.Typ)
		p.Req = &hagallpb.EntityComponentTypeGetNameRequest{Type: hagallpb.MsgType_MSG_TYPE_ENTITY_COMPONENT_TYPE_GET_NAME_REQUEST, Timestamp: ts, RequestId: rid, EntityComponentTypeId: id}
		p.Finish = func(m *Model, got []*RecvMsg) *Outcome {
			c := m.conn(ci)
			s := c.Session
			_, _ = c, s
			if s == nil {
				return unjoinedMaybeBad(rid, id == 0, "type_get_name")
			}
			o := &Outcome{Kind: "type_get_name", Props: []string{"C04", "C12"}}
			switch {
			case id == 0:
				o.Req = []Exp{errResp(rid, eBad)}
			case s.NameByType[id] == "":
				o.Req = []Exp{errResp(rid, eNotFound)}
			default:
				o.Req = []Exp{one(&hagallpb.EntityComponentTypeGetNameResponse{Type: hagallpb.MsgType_MSG_TYPE_ENTITY_COMPONENT_TYPE_GET_NAME_RESPONSE, RequestId: rid, EntityComponentTypeName: s.NameByType[id]})}
			}
			return o
		}

	case "type_get_id":
		name := st.Name
		p.Req = &hagallpb.EntityComponentTypeGetIdRequest{Type: hagallpb.MsgType_MSG_TYPE_ENTITY_COMPONENT_TYPE_GET_ID_REQUEST, Timestamp: ts, RequestId: rid, EntityComponentTypeName: name}
		p.Finish = func(m *Model, got []*RecvMsg) *Outcome {
			c := m.conn(ci)
			s := c.Session
			_, _ = c, s
			if s == nil {
				return unjoinedMaybeBad(rid, name == "", "type_get_id")
			}
			o := &Outcome{Kind: "type_get_id", Props: []string{"C04", "C12"}}
			switch {
			case name == "":
				o.Req = []Exp{errResp(rid, eBad)}
			case s.TypeByName[name] == 0:
				o.Req = []Exp{errResp(rid, eNotFound)}
			default:
				o.Req = []Exp{one(&hagallpb.EntityComponentTypeGetIdResponse{Type: hagallpb.MsgType_MSG_TYPE_ENTITY_COMPONENT_TYPE_GET_ID_RESPONSE, RequestId: rid, EntityComponentTypeId: s.TypeByName[name]})}
			}
			return o
		}

	case "comp_add":
		typ, ent := m.resolveComp(c, st.Typ, st.Ent)
		p.Req = &hagallpb.EntityComponentAddRequest{Type: hagallpb.MsgType_MSG_TYPE_ENTITY_COMPONENT_ADD_REQUEST, Timestamp: ts, RequestId: rid, EntityComponentTypeId: typ, EntityId: ent, Data: []byte(st.Data)}
		p.Finish = func(m *Model, got []*RecvMsg) *Outcome {
			c := m.conn(ci)
			s := c.Session
			_, _ = c, s
			if s == nil {
				return unjoinedMaybeBad(rid, typ == 0 || ent == 0, "comp_add")
			}
			o := &Outcome{Kind: "comp_add", Props: []string{"C04", "C12", "C13"}}
			k := CKey{typ, ent}
			_, exists := s.Components[k]
			switch {
			case typ == 0 || ent == 0:
				o.Req = []Exp{errResp(rid, eBad)}
			case s.Entities[ent] == nil || s.NameByType[typ] == "":
				o.Req = []Exp{errResp(rid, eNotFound)}
			case exists:
				o.Req = []Exp{errResp(rid, eConflict)}
			default:
				s.Components[k] = st.Data
				o.Accepted = true
				o.Req = []Exp{one(&hagallpb.EntityComponentAddResponse{Type: hagallpb.MsgType_MSG_TYPE_ENTITY_COMPONENT_ADD_RESPONSE, RequestId: rid})}
				s.componentRelay(o, c.PID, typ, &hagallpb.EntityComponentAddBroadcast{Type: hagallpb.MsgType_MSG_TYPE_ENTITY_COMPONENT_ADD_BROADCAST, OriginTimestamp: ts,
					EntityComponent: &hagallpb.EntityComponent{EntityComponentTypeId: typ, EntityId: ent, Data: []byte(st.Data)}}, false)
			}
			return o
		}

	case "comp_delete":
		typ, ent := m.resolveComp(c, st.Typ, st.Ent)
		p.Req = &hagallpb.EntityComponentDeleteRequest{Type: hagallpb.MsgType_MSG_TYPE_ENTITY_COMPONENT_DELETE_REQUEST, Timestamp: ts, RequestId: rid, EntityComponentTypeId: typ, EntityId: ent}
		p.Finish = func(m *Model, got []*RecvMsg) *Outcome {
			c := m.conn(ci)
			s := c.Session
			_, _ = c, s
			if s == nil {
				return unjoinedMaybeBad(rid, typ == 0 || ent == 0, "comp_delete")
			}
			o := &Outcome{Kind: "comp_delete", Props: []string{"C04", "C12", "C13"}}
			k := CKey{typ, ent}
			_, exists := s.Components[k]
			switch {
			case typ == 0 || ent == 0:
				o.Req = []Exp{errResp(rid, eBad)}
			case s.Entities[ent] == nil || !exists:
				o.Req = []Exp{errResp(rid, eNotFound)}
			default:
				delete(s.Components, k)
				o.Accepted = true
				o.Req = []Exp{one(&hagallpb.EntityComponentDeleteResponse{Type: hagallpb.MsgType_MSG_TYPE_ENTITY_COMPONENT_DELETE_RESPONSE, RequestId: rid})}
				s.componentRelay(o, c.PID, typ, &hagallpb.EntityComponentDeleteBroadcast{Type: hagallpb.MsgType_MSG_TYPE_ENTITY_COMPONENT_DELETE_BROADCAST, OriginTimestamp: ts,
					EntityComponent: &hagallpb.EntityComponent{EntityComponentTypeId: typ, EntityId: ent}}, false)
			}
			return o
		}

	case "comp_update":
		typ, ent := m.resolveComp(c, st.Typ, st.Ent)
		p.Req = &hagallpb.EntityComponentUpdate{Type: hagallpb.MsgType_MSG_TYPE_ENTITY_COMPONENT_UPDATE, Timestamp: ts, EntityComponentTypeId: typ, EntityId: ent, Data: []byte(st.Data)}
		p.RID = 0
		p.Finish = func(m *Model, got []*RecvMsg) *Outcome {
			c := m.conn(ci)
			s := c.Session
			_, _ = c, s
			if s == nil {
				m.Tainted[ci] = true
				return unjoinedMaybeBad(0, typ == 0 || ent == 0, "comp_update")
			}
			o := &Outcome{Kind: "comp_update", Props: []string{"C12", "C13", "C02"}}
			k := CKey{typ, ent}
			if _, exists := s.Components[k]; !exists || typ == 0 || ent == 0 {
				o.Kind = "comp_update/missing"
				return o // changes nothing, relayed to no one
			}
			s.Components[k] = st.Data
			o.Accepted = true
			s.componentRelay(o, c.PID, typ, &hagallpb.EntityComponentUpdateBroadcast{Type: hagallpb.MsgType_MSG_TYPE_ENTITY_COMPONENT_UPDATE_BROADCAST, OriginTimestamp: ts,
				EntityComponent: &hagallpb.EntityComponent{EntityComponentTypeId: typ, EntityId: ent, Data: []byte(st.Data)}}, true)
			return o
		}

	case "comp_list":
		typ := m.resolveType(c, st.Typ)
		p.Req = &hagallpb.EntityComponentListRequest{Type: hagallpb.MsgType_MSG_TYPE_ENTITY_COMPONENT_LIST_REQUEST, Timestamp: ts, RequestId: rid, EntityComponentTypeId: typ}
		p.Finish = func(m *Model, got []*RecvMsg) *Outcome {
			c := m.conn(ci)
			s := c.Session
			_, _ = c, s
			if s == nil {
				return unjoinedMaybeBad(rid, typ == 0, "comp_list")
			}
			o := &Outcome{Kind: "comp_list", Props: []string{"C04", "C12"}}
			if typ == 0 {
				o.Req = []Exp{errResp(rid, eBad)}
				return o
			}
			resp := &hagallpb.EntityComponentListResponse{Type: hagallpb.MsgType_MSG_TYPE_ENTITY_COMPONENT_LIST_RESPONSE, RequestId: rid}
			for _, k := range sortedCKeys(s.Components) {
				if k.Type == typ {
					resp.EntityComponents = append(resp.EntityComponents, &hagallpb.EntityComponent{EntityComponentTypeId: k.Type, EntityId: k.Entity, Data: []byte(s.Components[k])})
				}
			}
			if s.NameByType[typ] == "" {
				// listing an unregistered type: an empty list or a not-found refusal
				o.Req = []Exp{{Desc: "empty list or not found", Pred: func(mm proto.Message) string {
					switch x := mm.(type) {
					case *hagallpb.ErrorResponse:
						if x.RequestId == rid && x.Code == eNotFound {
							return ""
						}
					case *hagallpb.EntityComponentListResponse:
						if x.RequestId == rid && len(x.EntityComponents) == 0 {
							return ""
						}
					}
					return fmt.Sprintf("unexpected answer %v", mm)
				}}}
				return o
			}
			o.Req = []Exp{one(resp)}
			// a list answer refreshes the requester's view of that type
			if s.Stale[c.PID] != nil {
				delete(s.Stale[c.PID], typ)
			}
			return o
		}

	case "subscribe":
		typ := m.resolveType(c, st.Typ)
		p.Req = &hagallpb.EntityComponentTypeSubscribeRequest{Type: hagallpb.MsgType_MSG_TYPE_ENTITY_COMPONENT_TYPE_SUBSCRIBE_REQUEST, Timestamp: ts, RequestId: rid, EntityComponentTypeId: typ}
		p.Finish = func(m *Model, got []*RecvMsg) *Outcome {
			c := m.conn(ci)
			s := c.Session
			_, _ = c, s
			if s == nil {
				return unjoinedMaybeBad(rid, typ == 0, "subscribe")
			}
			o := &Outcome{Kind: "subscribe", Props: []string{"C04", "C13"}}
			switch {
			case typ == 0:
				o.Req = []Exp{errResp(rid, eBad)}
			case s.NameByType[typ] == "":
				o.Req = []Exp{errResp(rid, eNotFound)}
			default:
				if s.Subs[typ] == nil {
					s.Subs[typ] = map[uint32]bool{}
				}
				s.Subs[typ][c.PID] = true
				o.Accepted = true
				o.Req = []Exp{one(&hagallpb.EntityComponentTypeSubscribeResponse{Type: hagallpb.MsgType_MSG_TYPE_ENTITY_COMPONENT_TYPE_SUBSCRIBE_RESPONSE, RequestId: rid})}
			}
			return o
		}

	case "unsubscribe":
		typ := m.resolveType(c, st.Typ)
		p.Req = &hagallpb.EntityComponentTypeUnsubscribeRequest{Type: hagallpb.MsgType_MSG_TYPE_ENTITY_COMPONENT_TYPE_UNSUBSCRIBE_REQUEST, Timestamp: ts, RequestId: rid, EntityComponentTypeId: typ}
		p.Finish = func(m *Model, got []*RecvMsg) *Outcome {
			c := m.conn(ci)
			s := c.Session
			_, _ = c, s
			if s == nil {
				return unjoinedMaybeBad(rid, typ == 0, "unsubscribe")
			}
			o := &Outcome{Kind: "unsubscribe", Props: []string{"C04", "C13"}}
			switch {
			case typ == 0:
				o.Req = []Exp{errResp(rid, eBad)}
			case s.NameByType[typ] == "":
				// neither the statements nor the protocol fix this: success without effect or an error
				o.Req = []Exp{{Desc: "success or error", Pred: func(mm proto.Message) string {
					if requestID(mm) != rid {
						return "wrong request id"
					}
					return ""
				}}}
			default:
				delete(s.Subs[typ], c.PID)
				o.Accepted = true
				o.Req = []Exp{one(&hagallpb.EntityComponentTypeUnsubscribeResponse{Type: hagallpb.MsgType_MSG_TYPE_ENTITY_COMPONENT_TYPE_UNSUBSCRIBE_RESPONSE, RequestId: rid})}
			}
			return o
		}

	case "ping":
		p.Req = &hagallpb.Request{Type: hagallpb.MsgType_MSG_TYPE_PING_REQUEST, Timestamp: ts, RequestId: rid}
		p.Finish = func(m *Model, got []*RecvMsg) *Outcome {
			c := m.conn(ci)
			s := c.Session
			_, _ = c, s
			return &Outcome{Kind: "ping", Props: []string{"C04"}, Req: []Exp{one(&hagallpb.Response{Type: hagallpb.MsgType_MSG_TYPE_PING_RESPONSE, RequestId: rid})}}
		}

	case "stray_pong":
		p.Req = &hagallpb.Response{Type: hagallpb.MsgType_MSG_TYPE_PING_RESPONSE, Timestamp: ts, RequestId: rid}
		p.Finish = func(m *Model, got []*RecvMsg) *Outcome {
			c := m.conn(ci)
			s := c.Session
			_, _ = c, s
			// a ping response outside a measurement: any error answer, or none
			return &Outcome{Kind: "stray_pong", Props: []string{"C04"}, Req: []Exp{{Optional: true, Desc: "optional error", Pred: func(mm proto.Message) string {
				if _, ok := mm.(*hagallpb.ErrorResponse); !ok {
					return fmt.Sprintf("stray ping response answered with %T", mm)
				}
				return ""
			}}}}
		}

	case "action":
		ent := m.resolveEntity(c, st.Ent)
		var ea *vikjapb.EntityAction
		if st.Variant != "nil_action" {
			ea = &vikjapb.EntityAction{EntityId: ent, Name: st.Name, Data: []byte(st.Data)}
			var stored *VAction
			if s != nil {
				if a, ok := s.Actions[ent][st.Name]; ok {
					stored = &a
				}
			}
			base := ts.AsTime()
			switch st.TSKind {
			case "nil":
			case "zero":
				ea.Timestamp = &timestamppb.Timestamp{}
			case "negative":
				ea.Timestamp = &timestamppb.Timestamp{Seconds: -5}
			case "future":
				ea.Timestamp = timestamppb.New(base.Add(1000 * time.Hour))
			case "far_future":
				ea.Timestamp = &timestamppb.Timestamp{Seconds: 16725225600 + int64(st.N)} // year 2500
			case "equal":
				if stored != nil {
					ea.Timestamp = &timestamppb.Timestamp{Seconds: stored.Sec, Nanos: stored.Nanos}
				} else {
					ea.Timestamp = ts
				}
			case "older":
				if stored != nil {
					ea.Timestamp = &timestamppb.Timestamp{Seconds: stored.Sec - 1 - int64(st.N), Nanos: stored.Nanos}
				} else {
					ea.Timestamp = timestamppb.New(base.Add(-time.Hour))
				}
			case "older_ns":
				if stored != nil && stored.Nanos > 0 {
					ea.Timestamp = &timestamppb.Timestamp{Seconds: stored.Sec, Nanos: stored.Nanos - 1}
				} else if stored != nil {
					ea.Timestamp = &timestamppb.Timestamp{Seconds: stored.Sec - 1, Nanos: 999999999}
				} else {
					ea.Timestamp = ts
				}
			default:
				ea.Timestamp = ts
			}
		}
		p.Req = &vikjapb.EntityActionRequest{Type: vikjapb.MsgType_MSG_TYPE_VIKJA_ENTITY_ACTION_REQUEST, Timestamp: ts, RequestId: rid, EntityAction: ea}
		p.Finish = func(m *Model, got []*RecvMsg) *Outcome {
			c := m.conn(ci)
			s := c.Session
			_, _ = c, s
			if !m.Modules["vikja"] || s == nil {
				o := notJoined(rid, "action")
				o.MayEnd = s == nil
				return o
			}
			o := &Outcome{Kind: "action", Props: []string{"C04", "C16", "C02"}}
			if ea == nil || ea.Name == "" || ea.Timestamp == nil {
				o.Req = []Exp{errResp(rid, eBad)}
				return o
			}
			if s.Entities[ent] == nil {
				o.Req = []Exp{errResp(rid, eBad, eNotFound)}
				return o
			}
			if a, ok := s.Actions[ent][ea.Name]; ok && tsLess(ea.Timestamp.Seconds, ea.Timestamp.Nanos, a.Sec, a.Nanos) {
				o.Kind = "action/older"
				o.Req = []Exp{errResp(rid)} // refused; the code is not fixed by the statements
				return o
			}
			if s.Actions[ent] == nil {
				s.Actions[ent] = map[string]VAction{}
			}
			s.Actions[ent][ea.Name] = vaction(ea)
			o.Accepted = true
			o.Req = []Exp{one(&vikjapb.EntityActionResponse{Type: vikjapb.MsgType_MSG_TYPE_VIKJA_ENTITY_ACTION_RESPONSE, RequestId: rid})}
			for _, q := range s.others(c.PID) {
				o.other(s.Members[q], one(&vikjapb.EntityActionBroadcast{Type: vikjapb.MsgType_MSG_TYPE_VIKJA_ENTITY_ACTION_BROADCAST, OriginTimestamp: ts, EntityAction: ea}))
			}
			return o
		}

	case "asset_add":
		ent := m.resolveEntity(c, st.Ent)
		p.Req = &odalpb.AssetInstanceAddRequest{Type: odalpb.MsgType_MSG_TYPE_ODAL_ASSET_INSTANCE_ADD_REQUEST, Timestamp: ts, RequestId: rid, EntityId: ent, AssetId: st.Name}
		p.Finish = func(m *Model, got []*RecvMsg) *Outcome {
			c := m.conn(ci)
			s := c.Session
			_, _ = c, s
			if !m.Modules["odal"] || s == nil {
				o := notJoined(rid, "asset_add")
				o.MayEnd = s == nil
				return o
			}
			o := &Outcome{Kind: "asset_add", Props: []string{"C04", "C16", "C05", "C02", "C10"}}
			e := s.Entities[ent]
			switch {
			case st.Name == "":
				o.Req = []Exp{errResp(rid, eBad)}
			case e == nil && ent == 0:
				o.Req = []Exp{errResp(rid, eBad, eNotFound)}
			case e == nil:
				o.Req = []Exp{errResp(rid, eNotFound)}
			case e.Owner != c.PID:
				o.Req = []Exp{errResp(rid, eUnauth)}
			default:
				r := findByRID(got, rid, 202)
				if r == nil {
					o.Req = []Exp{one(&odalpb.AssetInstanceAddResponse{Type: odalpb.MsgType_MSG_TYPE_ODAL_ASSET_INSTANCE_ADD_RESPONSE, RequestId: rid})}
					o.StateOnly = true
					return o
				}
				aid := r.Msg.(*odalpb.AssetInstanceAddResponse).AssetInstanceId
				if aid == 0 || s.IssuedAIDs[aid] {
					o.viol("C10", "asset-id-duplicate", "asset instance id %d issued twice", aid)
					o.viol("C16", "asset-id-not-fresh", "asset instance id %d issued twice", aid)
				}
				s.IssuedAIDs[aid] = true
				a := VAsset{ID: aid, Asset: st.Name, Owner: c.PID, Entity: ent}
				s.Assets[ent] = a
				o.Accepted = true
				o.Req = []Exp{one(&odalpb.AssetInstanceAddResponse{Type: odalpb.MsgType_MSG_TYPE_ODAL_ASSET_INSTANCE_ADD_RESPONSE, RequestId: rid, AssetInstanceId: aid})}
				for _, q := range s.others(c.PID) {
					o.other(s.Members[q], one(&odalpb.AssetInstanceAddBroadcast{Type: odalpb.MsgType_MSG_TYPE_ODAL_ASSET_INSTANCE_ADD_BROADCAST, OriginTimestamp: ts, AssetInstance: assetPB(a)}))
				}
			}
			return o
		}

	case "quad_sample":
		req := &dagazpb.DagazQuadSample{Type: dagazpb.MsgType_MSG_TYPE_DAGAZ_QUAD_SAMPLE, Timestamp: ts}
		for _, q := range st.Quads {
			req.Samples = append(req.Samples, &dagazpb.Quad{Center: &dagazpb.Point{X: q.C[0], Y: q.C[1], Z: q.C[2]}, Extents: &dagazpb.Point{X: q.E[0], Y: q.E[1], Z: q.E[2]}})
		}
		p.Req = req
		p.RID = 0
		p.Finish = func(m *Model, got []*RecvMsg) *Outcome {
			c := m.conn(ci)
			s := c.Session
			_, _ = c, s
			o := &Outcome{Kind: "quad_sample", Props: []string{"C20"}}
			if s != nil && m.Modules["dagaz"] {
				s.Quads += len(st.Quads)
				o.Accepted = true
			} else if s == nil {
				o.MayEnd = true
			}
			return o
		}

	case "get_region", "get_ground", "debug_info":
		var want int32
		switch st.Op {
		case "get_region":
			f := append(append([]float32(nil), st.F...), make([]float32, 6)...)
			p.Req = &dagazpb.DagazGetRegionRequest{Type: dagazpb.MsgType_MSG_TYPE_DAGAZ_GET_REGION_REQUEST, Timestamp: ts, RequestId: rid,
				Min: &dagazpb.Point{X: f[0], Y: f[1], Z: f[2]}, Max: &dagazpb.Point{X: f[3], Y: f[4], Z: f[5]}}
			want = 304
		case "get_ground":
			f := append(append([]float32(nil), st.F...), make([]float32, 6)...)
			p.Req = &dagazpb.DagazGetGroundPlaneRequest{Type: dagazpb.MsgType_MSG_TYPE_DAGAZ_GET_GROUND_PLANE_REQUEST, Timestamp: ts, RequestId: rid,
				Ray: &dagazpb.Ray{From: &dagazpb.Point{X: f[0], Y: f[1], Z: f[2]}, To: &dagazpb.Point{X: f[3], Y: f[4], Z: f[5]}}}
			want = 302
		default:
			p.Req = &dagazpb.DagazGetDebugInfoRequest{Type: dagazpb.MsgType_MSG_TYPE_DAGAZ_GET_DEBUG_INFO_REQUEST, Timestamp: ts, RequestId: rid}
			want = 306
		}
		p.Finish = func(m *Model, got []*RecvMsg) *Outcome {
			c := m.conn(ci)
			s := c.Session
			_, _ = c, s
			if !m.Modules["dagaz"] || s == nil {
				o := notJoined(rid, st.Op)
				o.MayEnd = s == nil
				return o
			}
			return &Outcome{Kind: st.Op, Props: []string{"C04", "C20"}, Req: []Exp{{Desc: fmt.Sprintf("one answer of type %d", want), Pred: func(mm proto.Message) string {
				if msgTypeOf(mm) != want || requestID(mm) != rid {
					return fmt.Sprintf("want type %d rid %d, got type %d rid %d", want, rid, msgTypeOf(mm), requestID(mm))
				}
				return ""
			}}}}
		}
	}
	return p
}

func unjoinedMaybeBad(rid uint32, bad bool, kind string) *Outcome {
	o := notJoined(rid, kind)
	_ = bad
	return o
}

func tsLess(s1 int64, n1 int32, s2 int64, n2 int32) bool {
	if s1 != s2 {
		return s1 < s2
	}
	return n1 < n2
}

// finishJoin handles every flavour of join.
func (m *Model) finishJoin(st *Step, ci int, rid uint32, ts *timestamppb.Timestamp, sid string, got []*RecvMsg) *Outcome {
	c := m.conn(ci)
	o := &Outcome{Kind: "join", Props: []string{"C04", "C07", "C01", "C02", "C10"}}
	if c.Session != nil && sid == c.Session.ID {
		o.Kind = "join/current"
		o.Req = []Exp{errResp(rid, eJoined)}
		// the modules see every message of a joined connection: re-sending their (accurate)
		// state after the refusal is neither required nor forbidden by the statements
		o.Req = append(o.Req, m.optionalModuleStates(c.Session)...)
		return o
	}
	target, live := m.Live[sid]
	if sid != "" && !live {
		o.Kind = "join/unknown"
		o.Req = []Exp{errResp(rid, eNotFound)}
		if c.Session != nil {
			o.Req = append(o.Req, m.optionalModuleStates(c.Session)...)
		}
		return o // a refused request changes nothing: the requester stays where it was
	}
	r := findByRID(got, rid, 4)
	if r == nil {
		o.Req = []Exp{one(&hagallpb.ParticipantJoinResponse{Type: hagallpb.MsgType_MSG_TYPE_PARTICIPANT_JOIN_RESPONSE, RequestId: rid})}
		o.StateOnly = true
		return o
	}
	jr := r.Msg.(*hagallpb.ParticipantJoinResponse)
	// leaving the previous session comes first
	if c.Session != nil {
		m.depart(o, ci)
	}
	if target == nil {
		// creation: any id that no live session uses, a UUID never seen before
		if _, clash := m.Live[jr.SessionId]; clash || jr.SessionId == "" {
			o.viol("C10", "session-id-shared", "new session got id %q which a live session already has", jr.SessionId)
			o.viol("C07", "session-id-shared", "new session got id %q which a live session already has", jr.SessionId)
		}
		if m.AllUUIDs[jr.SessionUuid] || jr.SessionUuid == "" {
			o.viol("C07", "reused-id-not-fresh", "new session reuses uuid %q", jr.SessionUuid)
			o.viol("C03", "reused-id-not-fresh", "new session reuses uuid %q", jr.SessionUuid)
		}
		target = newMSession(jr.SessionId, jr.SessionUuid)
		m.AllUUIDs[jr.SessionUuid] = true
		m.Live[jr.SessionId] = target
		if st.Sess != "" && st.Sess != "new" {
			m.SymSess[st.Sess] = jr.SessionUuid
		}
	}
	pid := jr.ParticipantId
	if pid == 0 || target.IssuedPIDs[pid] {
		o.viol("C10", "participant-id-reissued", "participant id %d issued twice in session %s", pid, target.UUID)
		o.viol("C05", "participant-id-reissued", "participant id %d issued twice in session %s", pid, target.UUID)
	}
	target.IssuedPIDs[pid] = true
	for _, q := range target.others(pid) {
		o.other(target.Members[q], one(&hagallpb.ParticipantJoinBroadcast{Type: hagallpb.MsgType_MSG_TYPE_PARTICIPANT_JOIN_BROADCAST, OriginTimestamp: ts, ParticipantId: pid}))
	}
	target.Members[pid] = ci
	c.Session, c.PID = target, pid
	o.Accepted = true
	o.Req = []Exp{
		one(&hagallpb.ParticipantJoinResponse{Type: hagallpb.MsgType_MSG_TYPE_PARTICIPANT_JOIN_RESPONSE, RequestId: rid, SessionId: target.ID, SessionUuid: target.UUID, ParticipantId: pid}),
		one(target.statePB()),
	}
	for _, mod := range m.modOrder {
		switch mod {
		case "vikja":
			o.Req = append(o.Req, one(target.vikjaPB()))
		case "odal":
			o.Req = append(o.Req, one(target.odalPB()))
		}
	}
	return o
}

func (m *Model) optionalModuleStates(s *MSession) []Exp {
	var out []Exp
	for _, mod := range m.modOrder {
		switch mod {
		case "vikja":
			out = append(out, Exp{Msgs: []proto.Message{s.vikjaPB()}, Optional: true})
		case "odal":
			out = append(out, Exp{Msgs: []proto.Message{s.odalPB()}, Optional: true})
		}
	}
	return out
}
