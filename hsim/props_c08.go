package hsim

import (
	"time"

	"github.com/aukilabs/hagall-common/messages/hagallpb"
	"google.golang.org/protobuf/proto"
	"google.golang.org/protobuf/types/known/timestamppb"
	"hagallsim/simrt"
)

var fixedTS = &timestamppb.Timestamp{Seconds: 946684800, Nanos: 9}

func mustMarshal(m proto.Message) []byte {
	b, err := proto.Marshal(m)
	if err != nil {
		panic(err)
	}
	return b
}

// failing requests: each makes the handler return an error (a disconnect cause)
func failingPayloads(r *simrt.Rand, joined bool) [][]byte {
	var out [][]byte
	// an empty receipt (answered bad request, then reported as an error)
	out = append(out, mustMarshal(&hagallpb.ReceiptRequest{Type: hagallpb.MsgType_MSG_TYPE_RECEIPT_REQUEST, Timestamp: fixedTS, RequestId: 9}))
	// an envelope that decodes and a body that does not (session_id holding invalid UTF-8)
	out = append(out, append(mustMarshal(&hagallpb.Msg{Type: hagallpb.MsgType_MSG_TYPE_PARTICIPANT_JOIN_REQUEST, Timestamp: fixedTS}), 0x1a, 0x02, 0xff, 0xfe))
	if !joined {
		out = append(out, mustMarshal(&hagallpb.EntityAddRequest{Type: hagallpb.MsgType_MSG_TYPE_ENTITY_ADD_REQUEST, Timestamp: fixedTS, RequestId: 3}))
		out = append(out, mustMarshal(&hagallpb.CustomMessage{Type: hagallpb.MsgType_MSG_TYPE_CUSTOM_MESSAGE, Timestamp: fixedTS, Body: []byte("x")}))
	}
	k := r.Intn(len(out))
	return [][]byte{out[k]}
}

func genC08(seed uint64, tier string) *Scenario { return genOffender(seed, tier, "") }

// genOffender builds a two-witness scenario ending in one offence; force selects the kind.
func genOffender(seed uint64, tier string, force string) *Scenario {
	r := simrt.NewRand(seed, "gen:C08")
	p := histProfile("C08", map[string]int{"switch": 0, "stray_pong": 0}, func(p *Profile) { p.PClose = 0; p.PProbe = 0; p.PBurst = 0; p.PNoPose = 0 })
	g := &genState{r: r, p: p, joined: map[int]string{}, dead: map[int]bool{}, sessN: 2, nConns: 3}
	// witnesses: 0 in S0, 1 in S1; the offender is 2
	g.join(0, "S0")
	g.join(1, "S1")
	offJoined := r.Bool(0.75) || force != ""
	if offJoined {
		g.join(2, "S0")
		n := r.Intn(4)
		for i := 0; i < n; i++ {
			st := g.makeOp(2, "entity_add")
			st.NoPose = false
			g.steps = append(g.steps, st)
		}
		for i := r.Intn(7); i > 0; i-- {
			op := []string{"type_add", "comp_add", "action", "asset_add", "subscribe", "custom", "pose", "get_ground", "quad_sample", "get_region", "get_ground", "quad_sample"}[r.Intn(12)]
			st := g.makeOp([]int{0, 2}[r.Intn(2)], op)
			st.NoPose = op == "pose" && r.Bool(0.15) // a pose update without its pose
			g.steps = append(g.steps, st)
		}
	}
	if offJoined && force == "" && r.Bool(0.25) {
		// the offender has switched session before (per-connection state that must follow it)
		g.join(2, "S1")
		if r.Bool(0.5) {
			st := g.makeOp(2, "entity_add")
			st.NoPose = false
			g.steps = append(g.steps, st)
		}
		if r.Bool(0.4) {
			g.join(2, "S0")
		}
	}
	sc := &Scenario{Prop: "C08", Family: "offender", Seed: seed}
	sc.World = genWorld(seed, r, p)
	sc.World.Modules = []string{"vikja", "odal", "dagaz"}
	sc.World.IdleTimeout = 24 * time.Hour
	off := &Offence{}
	kinds := []string{"frames", "frames", "frames", "burst_fail", "burst_fail", "midframe", "stall", "stall", "silence", "keepalive", "boundary", "update_then_close", "update_then_close", "close_amid", "close_amid"}
	off.Kind = kinds[r.Intn(len(kinds))]
	if force != "" {
		off.Kind = force
	}
	switch off.Kind {
	case "frames":
		off.Frame = []string{"bin", "bin", "bin", "bin", "text", "unmasked", "frag", "badlen", "huge", "ping", "pong", "close", "garbage"}[r.Intn(13)]
		n := 1 + r.Intn(4)
		for i := 0; i < n; i++ {
			b, _ := genMalformed(r)
			if off.Frame == "garbage" {
				b = make([]byte, 1+r.Intn(40))
				for j := range b {
					b[j] = byte(r.Uint64())
				}
			}
			off.Raws = append(off.Raws, b)
		}
	case "burst_fail":
		off.N = []int{1, 2, 8, 9, 10, 12, 16, 50, 300, 600}[r.Intn(10)]
		off.Raws = failingPayloads(r, offJoined)
	case "midframe":
		b, _ := genMalformed(r)
		off.Raws = [][]byte{b}
		off.Cut = 1 + r.Intn(len(b)+5)
		off.Then = []string{"fin", "rst"}[r.Intn(2)]
	case "stall":
		off.Witness = 0
		off.N = []int{0, 5, 40, 200, 520, 700, 1500}[r.Intn(7)]
		off.Cut = []int{0, 0, 3, 60, 600}[r.Intn(5)]
		off.Then = []string{"resume", "resume", "fin", "rst", "fail"}[r.Intn(5)]
		if off.Then == "fail" {
			off.Raws = failingPayloads(r, offJoined)
		}
		off.Poses = []int{0, 0, 1, 3, 6}[r.Intn(5)]
		if force != "" {
			off.Then = "resume"
			off.N = []int{520, 700, 1500}[r.Intn(3)]
			off.Cut = []int{60, 600, 700}[r.Intn(3)]
			off.Poses = 1 + r.Intn(5)
		}
		if offJoined && off.N >= 200 && r.Bool(0.5) {
			// a third member of the session, who will switch away while relays are held up
			g.join(3, "S0")
			if g.nConns < 4 {
				g.nConns = 4
			}
			off.Switcher = 3
		}
		if off.Poses > 0 {
			// the witness needs an entity to move
			st := g.makeOp(0, "entity_add")
			st.NoPose = false
			g.steps = append(g.steps, st)
		}
		sc.World.Net.Window = []int{2 << 10, 4 << 10, 64 << 10}[r.Intn(3)]
	case "update_then_close":
		n := 1 + r.Intn(4)
		for i := 0; i < n; i++ {
			if r.Bool(0.7) {
				pose := posePB(float32(1000 + i))
				if r.Bool(0.15) {
					pose = nil
				}
				off.Raws = append(off.Raws, mustMarshal(&hagallpb.EntityUpdatePose{Type: hagallpb.MsgType_MSG_TYPE_ENTITY_UPDATE_POSE, Timestamp: fixedTS, EntityId: uint32(1 + r.Intn(3)), Pose: pose}))
			} else {
				off.Raws = append(off.Raws, mustMarshal(&hagallpb.EntityComponentUpdate{Type: hagallpb.MsgType_MSG_TYPE_ENTITY_COMPONENT_UPDATE, Timestamp: fixedTS, EntityComponentTypeId: 1, EntityId: uint32(1 + r.Intn(3)), Data: []byte("z")}))
			}
		}
		off.Then = []string{"fin", "rst"}[r.Intn(2)]
		sc.World.FrameDuration = []time.Duration{time.Millisecond, 5 * time.Millisecond, 15 * time.Millisecond}[r.Intn(3)]
		// slow tasks: the frame worker may be held up in the middle of a frame while the
		// connection is torn down
		if sc.World.Policy == "seq" {
			sc.World.Policy = "rand"
		}
		sc.World.StallProb = 0.01
		sc.World.StallMax = 5 * time.Millisecond
	case "close_amid":
		off.Witness = 0
		// the witness registers a type, subscribes and adds components while the offender leaves
		off.Raws = append(off.Raws,
			mustMarshal(&hagallpb.EntityComponentTypeAddRequest{Type: hagallpb.MsgType_MSG_TYPE_ENTITY_COMPONENT_TYPE_ADD_REQUEST, Timestamp: fixedTS, RequestId: 71, EntityComponentTypeName: "alpha"}),
			mustMarshal(&hagallpb.EntityComponentTypeSubscribeRequest{Type: hagallpb.MsgType_MSG_TYPE_ENTITY_COMPONENT_TYPE_SUBSCRIBE_REQUEST, Timestamp: fixedTS, RequestId: 72, EntityComponentTypeId: 1}))
		for i := 0; i < 1+r.Intn(4); i++ {
			switch r.Intn(3) {
			case 0:
				off.Raws = append(off.Raws, mustMarshal(&hagallpb.EntityComponentAddRequest{Type: hagallpb.MsgType_MSG_TYPE_ENTITY_COMPONENT_ADD_REQUEST, Timestamp: fixedTS, RequestId: uint32(80 + i), EntityComponentTypeId: 1, EntityId: uint32(1 + r.Intn(3)), Data: []byte("q")}))
			case 1:
				off.Raws = append(off.Raws, mustMarshal(&hagallpb.CustomMessage{Type: hagallpb.MsgType_MSG_TYPE_CUSTOM_MESSAGE, Timestamp: fixedTS, Body: []byte("amid")}))
			default:
				off.Raws = append(off.Raws, mustMarshal(&hagallpb.EntityAddRequest{Type: hagallpb.MsgType_MSG_TYPE_ENTITY_ADD_REQUEST, Timestamp: fixedTS, RequestId: uint32(90 + i), Pose: posePB(7)}))
			}
		}
		off.Then = []string{"fin", "rst"}[r.Intn(2)]
	case "boundary":
		sc.World.IdleTimeout = []time.Duration{time.Second, 2 * time.Second, 30 * time.Second}[r.Intn(3)]
		sc.World.FrameDuration = sc.World.IdleTimeout / 200
		sc.World.Net.MinLat, sc.World.Net.Jitter = 100*time.Microsecond, 0
		sc.World.Net.SplitProb = 0
		sc.World.StallProb = 0
		sc.World.Summary = time.Minute
		if sc.World.Policy == "seq" {
			sc.World.Policy = "rand"
		}
		off.N = r.Intn(3)
	case "silence", "keepalive":
		off.Skew = []int64{0, 0, 3600, -3600, 86400 * 365, -946684000}[r.Intn(6)]
		if off.Kind == "silence" && r.Bool(0.3) {
			off.Then = "stalled"
			off.Witness = 0
			off.N = []int{0, 5, 40, 100}[r.Intn(4)]
			sc.World.Net.Window = []int{2 << 10, 4 << 10}[r.Intn(2)]
		}
		sc.World.IdleTimeout = []time.Duration{time.Second, 2 * time.Second, 30 * time.Second, 5 * time.Minute}[r.Intn(4)]
		// frames short enough that the set-up cannot run into the idle timeout, long enough
		// to keep the number of frame ticks per run bounded
		sc.World.FrameDuration = sc.World.IdleTimeout / 200
		sc.World.Net.MinLat, sc.World.Net.Jitter = 100*time.Microsecond, 0
		sc.World.StallProb = 0
		sc.World.Summary = time.Minute
	}
	g.steps = append(g.steps, Step{Conn: 2, Op: "offence", Off: off})
	sc.Steps = g.steps
	return sc
}

func init() {
	props["C08"] = &propSpec{ID: "C08", Gen: genC08,
		Rule:       "distinct run digests in which an offence (malformed frame/message, failing burst, stall, abrupt close, silence) was carried out against a server with two witnesses",
		NonTrivial: func(r *Result) bool { return r.Triggers["offence"] > 0 }}
}

type zeroRand struct{}

func nil2() *simrt.Rand { return simrt.NewRand(1, "x") }
