package hsim

import (
	"time"

	"hagallsim/simrt"
)

// subChurn: 3-6 members subscribed to one or two component types; wave after wave, some of them
// update existing components (relayed at the next frame tick) while, at the very instant of
// that tick, others unsubscribe, subscribe again or leave. What C13 says about a notification
// on its way while the subscription ends is decided in these windows.
func subChurn(seed uint64, p *Profile) *Scenario {
	r := simrt.NewRand(seed, "c13churn")
	g := &genState{r: r, p: p, joined: map[int]string{}, dead: map[int]bool{}, sessN: 1}
	n := 3 + r.Intn(4)
	for c := 0; c < n; c++ {
		g.join(c, "S0")
	}
	g.nConns = n
	add := func(st Step) { g.steps = append(g.steps, st) }
	add(Step{Conn: 0, Op: "type_add", Name: "alpha"})
	types := 1
	if r.Bool(0.5) {
		add(Step{Conn: 1, Op: "type_add", Name: "beta"})
		types = 2
	}
	ne := 1 + r.Intn(3)
	for i := 0; i < ne; i++ {
		add(Step{Conn: i % n, Op: "entity_add", Seq: float32(i + 1), Persist: r.Bool(0.3)})
	}
	for i := 0; i < 1+r.Intn(3); i++ {
		add(Step{Conn: r.Intn(n), Op: "comp_add", Typ: Ref{K: "reg", I: i % types}, Ent: Ref{K: "any", I: i}, Data: "init"})
	}
	for c := 0; c < n; c++ {
		if r.Bool(0.8) {
			add(Step{Conn: c, Op: "subscribe", Typ: Ref{K: "reg", I: r.Intn(types)}})
		}
	}
	for round := 0; round < 2+r.Intn(4); round++ {
		lj := g.liveJoined()
		if len(lj) < 2 {
			break
		}
		g.nextBlk++
		perm := r.Perm(len(lj))
		k := 2 + r.Intn(3)
		for i, pi := range perm {
			if i >= k {
				break
			}
			c := lj[pi]
			var st Step
			if i == 0 || (i == 1 && r.Bool(0.4)) {
				st = Step{Conn: c, Op: "comp_update", Typ: Ref{K: "comp", I: r.Intn(3)}, Data: "churn"}
				st.Data = st.Data + string(rune('a'+round)) + string(rune('0'+i))
			} else {
				op := g.pick([]string{"unsubscribe", "subscribe", "close", "comp_delete", "comp_add", "comp_list"}, []int{40, 18, 14, 10, 10, 8})
				st = Step{Conn: c, Op: op, Typ: Ref{K: "reg", I: r.Intn(types)}, Ent: Ref{K: "any", I: r.Intn(3)}, Data: "x"}
				if op == "close" {
					g.dead[c] = true
					g.joined[c] = ""
				}
			}
			st.Block = g.nextBlk
			add(st)
		}
		if r.Bool(0.3) {
			if c := lj[r.Intn(len(lj))]; !g.dead[c] {
				add(Step{Conn: c, Op: "subscribe", Typ: Ref{K: "reg", I: r.Intn(types)}})
			}
		}
	}
	sc := &Scenario{Prop: "C13", Family: "history", Seed: seed, Steps: g.steps}
	sc.World = genWorld(seed, r, p)
	if sc.World.Policy == "seq" {
		sc.World.Policy = "rand"
	}
	sc.World.Net.Jitter = 0
	sc.World.UnlockYield = []float64{0.2, 0.5, 0.8}[r.Intn(3)]
	sc.World.FrameDuration = []time.Duration{time.Millisecond, 5 * time.Millisecond, 15 * time.Millisecond}[r.Intn(3)]
	return sc
}

// longLived: one session kept alive by an anchor while 64-300 other connections come and go,
// so that participant ids (sequential, never reused) cross the 64, 128 and 256 marks; then the
// members address each other. Anything that packs ids into a mask, a byte or a fixed table
// goes wrong here and nowhere else.
func longLived(seed uint64, p *Profile, prop string) *Scenario {
	r := simrt.NewRand(seed, "longlived")
	g := &genState{r: r, p: p, joined: map[int]string{}, dead: map[int]bool{}, sessN: 1}
	add := func(st Step) { g.steps = append(g.steps, st) }
	g.join(0, "S0")
	g.join(1, "S0")
	next := 2
	churn := []int{62, 63, 64, 65, 126, 127, 130, 254, 258}[r.Intn(9)]
	for i := 0; i < churn; i++ {
		add(Step{Conn: next, Op: "join", Sess: "S0"})
		if r.Bool(0.1) {
			add(Step{Conn: next, Op: "entity_add", Seq: float32(i + 1)})
		}
		add(Step{Conn: next, Op: []string{"close", "close", "rst"}[r.Intn(3)]})
		next++
	}
	var late []int
	for i := 0; i < 2+r.Intn(3); i++ {
		add(Step{Conn: next, Op: "join", Sess: "S0"})
		late = append(late, next)
		next++
	}
	everyone := append([]int{0, 1}, late...)
	for i := 0; i < 4+r.Intn(6); i++ {
		c := everyone[r.Intn(len(everyone))]
		switch r.Intn(5) {
		case 0:
			add(Step{Conn: c, Op: "custom", BodyLen: 10 + r.Intn(50), Fill: byte(i)})
		case 1, 2:
			st := Step{Conn: c, Op: "custom", BodyLen: 10 + r.Intn(50), Fill: byte(i)}
			for k := 0; k < len(everyone); k++ {
				if r.Bool(0.7) {
					st.Rcpts = append(st.Rcpts, Ref{K: "member", I: k})
				}
			}
			add(st)
		case 3:
			add(Step{Conn: c, Op: "entity_add", Seq: float32(1000 + i)})
		default:
			add(Step{Conn: c, Op: "pose", Ent: Ref{K: "own"}, Seq: float32(2000 + i)})
		}
	}
	g.nConns = next
	sc := &Scenario{Prop: prop, Family: "history", Seed: seed, Steps: g.steps}
	sc.World = genWorld(seed, r, p)
	sc.World.Policy = "seq"
	sc.World.StallProb = 0
	// cheap ticks: the scenario is long
	if sc.World.FrameDuration < 15*time.Millisecond {
		sc.World.FrameDuration = 15 * time.Millisecond
	}
	sc.World.Net.MinLat, sc.World.Net.Jitter = 200*time.Microsecond, 0
	return sc
}

// takeover: the two members of a session leave while one connection creates a session (which
// reuses the id) and another joins the old one by id - refused, or landing in the new session at
// the very moment its creator sets it up. Whatever the late joiner then attaches must become part
// of the state of the session it is in.
func takeover(seed uint64, p *Profile, prop string) *Scenario {
	r := simrt.NewRand(seed, "takeover")
	g := &genState{r: r, p: p, joined: map[int]string{}, dead: map[int]bool{}, sessN: 1}
	add := func(st Step) { g.steps = append(g.steps, st) }
	g.join(0, "S0")
	if r.Bool(0.7) {
		g.join(1, "S0")
	}
	for i := r.Intn(3); i > 0; i-- {
		add(g.makeOp(r.Intn(2), []string{"entity_add", "type_add", "action", "asset_add"}[r.Intn(4)]))
	}
	g.nextBlk++
	add(Step{Conn: 0, Op: "close", Block: g.nextBlk})
	if g.joined[1] != "" {
		add(Step{Conn: 1, Op: "close", Block: g.nextBlk})
	}
	add(Step{Conn: 2, Op: "join", Sess: "new", Block: g.nextBlk})
	add(Step{Conn: 3, Op: "join", Sess: "S0", Block: g.nextBlk})
	if r.Bool(0.4) {
		add(Step{Conn: 4, Op: "join", Sess: "S0", Block: g.nextBlk})
	}
	for _, c := range []int{3, 2, 3} {
		st := g.makeOp(c, "entity_add")
		st.NoPose = false
		add(st)
		for _, op := range []string{"action", "asset_add", "quad_sample"} {
			if r.Bool(0.6) {
				st := g.makeOp(c, op)
				st.Ent = Ref{K: "own"}
				add(st)
			}
		}
	}
	add(Step{Conn: 5, Op: "join", Sess: "new"})
	g.nConns = 6
	sc := &Scenario{Prop: prop, Family: "history", Seed: seed, Steps: g.steps}
	sc.World = genWorld(seed, r, p)
	sc.World.Modules = []string{"vikja", "odal", "dagaz"}
	if sc.World.Policy == "seq" {
		sc.World.Policy = "rand"
	}
	sc.World.Net.Jitter = 0
	sc.World.UnlockYield = []float64{0.2, 0.5, 0.8}[r.Intn(3)]
	return sc
}
