package hsim

import (
	"time"

	"hagallsim/simrt"
)

// subChurn: 3-6 members subscribed to one or two component types; wave after wave, some of them
// update existing components (relayed at the next frame tick) while, at the very instant of
// that tick, others unsubscribe, subscribe again or leave. What C13 says about a notification
// on its way while the subscription ends is decided in these windows.
func subChurn(seed uint64, p *Profile) *Scenario {
	r := simrt.NewRand(seed, "c13churn")
	g := &genState{r: r, p: p, joined: map[int]string{}, dead: map[int]bool{}, sessN: 1}
	n := 3 + r.Intn(4)
	for c := 0; c < n; c++ {
		g.join(c, "S0")
	}
	g.nConns = n
	add := func(st Step) { g.steps = append(g.steps, st) }
	add(Step{Conn: 0, Op: "type_add", Name: "alpha"})
	types := 1
	if r.Bool(0.5) {
		add(Step{Conn: 1, Op: "type_add", Name: "beta"})
		types = 2
	}
	ne := 1 + r.Intn(3)
	for i := 0; i < ne; i++ {
		add(Step{Conn: i % n, Op: "entity_add", Seq: float32(i + 1), Persist: r.Bool(0.3)})
	}
	for i := 0; i < 1+r.Intn(3); i++ {
		add(Step{Conn: r.Intn(n), Op: "comp_add", Typ: Ref{K: "reg", I: i % types}, Ent: Ref{K: "any", I: i}, Data: "init"})
	}
	for c := 0; c < n; c++ {
		if r.Bool(0.8) {
			add(Step{Conn: c, Op: "subscribe", Typ: Ref{K: "reg", I: r.Intn(types)}})
		}
	}
	for round := 0; round < 2+r.Intn(4); round++ {
		lj := g.liveJoined()
		if len(lj) < 2 {
			break
		}
		g.nextBlk++
		perm := r.Perm(len(lj))
		k := 2 + r.Intn(3)
		for i, pi := range perm {
			if i >= k {
				break
			}
			c := lj[pi]
			var st Step
			if i == 0 || (i == 1 && r.Bool(0.4)) {
				st = Step{Conn: c, Op: "comp_update", Typ: Ref{K: "comp", I: r.Intn(3)}, Data: "churn"}
				st.Data = st.Data + string(rune('a'+round)) + string(rune('0'+i))
			} else {
				op := g.pick([]string{"unsubscribe", "subscribe", "close", "comp_delete", "comp_add", "comp_list"}, []int{40, 18, 14, 10, 10, 8})
				st = Step{Conn: c, Op: op, Typ: Ref{K: "reg", I: r.Intn(types)}, Ent: Ref{K: "any", I: r.Intn(3)}, Data: "x"}
				if op == "close" {
					g.dead[c] = true
					g.joined[c] = ""
				}
			}
			st.Block = g.nextBlk
			add(st)
		}
		if r.Bool(0.3) {
			if c := lj[r.Intn(len(lj))]; !g.dead[c] {
				add(Step{Conn: c, Op: "subscribe", Typ: Ref{K: "reg", I: r.Intn(types)}})
			}
		}
	}
	sc := &Scenario{Prop: "C13", Family: "history", Seed: seed, Steps: g.steps}
	sc.World = genWorld(seed, r, p)
	if sc.World.Policy == "seq" {
		sc.World.Policy = "rand"
	}
	sc.World.Net.Jitter = 0
	sc.World.UnlockYield = []float64{0.2, 0.5, 0.8}[r.Intn(3)]
	sc.World.FrameDuration = []time.Duration{time.Millisecond, 5 * time.Millisecond, 15 * time.Millisecond}[r.Intn(3)]
	return sc
}
