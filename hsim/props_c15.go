package hsim

import (
	"fmt"
	"net/http"
	"net/http/httptest"
	"strings"
	"testing"
	"time"

	hagallhttp "github.com/aukilabs/hagall/http"
	"github.com/golang-jwt/jwt/v4"
	"golang.org/x/net/websocket"
	"hagallsim/simrt"
)

type c15tok struct {
	str      string
	secret   string // the key it was signed with
	alg      string
	mutation string
	iat, exp time.Time
	nbf      *time.Time
	desc     string
}

func (k *c15tok) validUnder(secret string, now time.Time, slack time.Duration) bool {
	if k.mutation != "" || k.alg != "HS256" || secret == "" || k.secret != secret {
		return false
	}
	if k.iat.After(now.Add(slack)) || !k.exp.After(now.Add(-slack)) {
		return false
	}
	if k.nbf != nil && k.nbf.After(now.Add(slack)) {
		return false
	}
	return true
}

// clearly: valid with every margin on the safe side
func (k *c15tok) clearlyValid(secret string, now time.Time) bool {
	return k.validUnder(secret, now, 0) && k.exp.After(now.Add(2*time.Second)) && !k.iat.After(now) && (k.nbf == nil || !k.nbf.After(now))
}

// clearly invalid: does not verify under any of the secrets, or is outside its validity by more
// than the margins (expiry and not-before: 2 s of clock granularity; issued-at: the 10 s of
// leeway the verifier grants, plus margin)
func (k *c15tok) clearlyInvalid(secrets []string, now time.Time) bool {
	for _, s := range secrets {
		if k.alg != "HS256" && k.alg != "none" && k.mutation == "" && s != "" && k.secret == s {
			return false // HS384/HS512 with the right key: the statement does not say; no assertion
		}
		if k.mutation != "" || k.alg != "HS256" || s == "" || k.secret != s {
			continue
		}
		expired := !k.exp.After(now.Add(-2 * time.Second))
		early := k.nbf != nil && k.nbf.After(now.Add(2*time.Second))
		future := k.iat.After(now.Add(15 * time.Second))
		if !expired && !early && !future {
			return false
		}
	}
	return true
}

func mintC15(r *simrt.Rand, secret string, now time.Time) *c15tok {
	k := &c15tok{secret: secret, alg: "HS256", iat: now, exp: now.Add(time.Hour)}
	switch x := r.Intn(24); {
	case x < 9: // plain valid
		k.exp = now.Add([]time.Duration{5 * time.Second, time.Minute, time.Hour, 24 * time.Hour}[r.Intn(4)])
	case x == 9:
		k.alg = "none"
	case x == 10:
		k.alg = []string{"HS384", "HS512"}[r.Intn(2)]
	case x == 11:
		k.secret = "some-other-secret"
	case x == 12:
		k.secret = "" // signed with the empty key
	case x == 13:
		k.exp = now.Add(-time.Minute) // already expired
	case x == 14:
		t := now.Add(time.Hour)
		k.nbf = &t
	case x == 15:
		k.iat = now.Add(5 * time.Second) // inside the 10 s leeway: no assertion
	case x == 16:
		k.iat = now.Add(time.Hour)
		k.exp = now.Add(2 * time.Hour)
	case x == 17:
		k.mutation = "payload"
	case x == 18:
		k.mutation = "signature"
	case x == 19:
		k.mutation = "header"
	case x == 20:
		k.mutation = "truncated"
	case x == 21:
		k.mutation = "garbage"
	case x == 22:
		k.mutation = "swap-signature" // signature of another valid token
	default:
		k.exp = now.Add(3 * time.Second)
	}
	claims := jwt.MapClaims{"iss": "HDS", "app_key": "app", "iat": k.iat.Unix(), "exp": k.exp.Unix(), "jti": fmt.Sprint(r.Uint64())}
	if k.nbf != nil {
		claims["nbf"] = k.nbf.Unix()
	}
	// claims hold whole seconds
	k.iat, k.exp = time.Unix(k.iat.Unix(), 0), time.Unix(k.exp.Unix(), 0)
	var method jwt.SigningMethod = jwt.SigningMethodHS256
	var key any = []byte(k.secret)
	switch k.alg {
	case "none":
		method, key = jwt.SigningMethodNone, jwt.UnsafeAllowNoneSignatureType
	case "HS384":
		method = jwt.SigningMethodHS384
	case "HS512":
		method = jwt.SigningMethodHS512
	}
	s, err := jwt.NewWithClaims(method, claims).SignedString(key)
	if err != nil {
		s = "error." + err.Error()
		k.mutation = "unsignable"
	}
	parts := strings.Split(s, ".")
	switch k.mutation {
	case "payload":
		if len(parts) == 3 {
			other, _ := jwt.NewWithClaims(method, jwt.MapClaims{"iss": "HDS", "app_key": "admin", "iat": k.iat.Unix(), "exp": k.exp.Add(24 * time.Hour).Unix()}).SignedString(key)
			parts[1] = strings.Split(other, ".")[1]
			s = strings.Join(parts, ".")
		}
	case "signature":
		b := []byte(s)
		i := len(b) - 2 - r.Intn(20) // not the last character: its low bits are padding
		if b[i] == 'A' {
			b[i] = 'B'
		} else {
			b[i] = 'A'
		}
		s = string(b)
	case "header":
		parts[0] = "eyJhbGciOiJub25lIiwidHlwIjoiSldUIn0" // {"alg":"none","typ":"JWT"}
		s = strings.Join(parts, ".")
	case "truncated":
		s = s[:len(s)/2]
	case "garbage":
		s = []string{"", "x", "a.b.c", "Bearer", "....", "eyJhbGciOiJIUzI1NiJ9.e30."}[r.Intn(6)]
	case "swap-signature":
		other, _ := jwt.NewWithClaims(method, jwt.MapClaims{"iss": "HDS", "app_key": "zzz", "iat": k.iat.Unix(), "exp": k.exp.Unix()}).SignedString(key)
		parts[2] = strings.Split(other, ".")[2]
		s = strings.Join(parts, ".")
	}
	k.str = s
	k.desc = fmt.Sprintf("alg=%s key=%q mutation=%q iat=%+ds exp=%+ds nbf=%v", k.alg, k.secret, k.mutation, int(k.iat.Sub(now).Seconds()), int(k.exp.Sub(now).Seconds()), k.nbf != nil)
	return k
}

func runC15(t *testing.T, seed uint64, tier string) (*Scenario, *Result) {
	r := simrt.NewRand(seed, "gen:C15")
	p := histProfile("C15", nil, nil)
	sc := &Scenario{Prop: "C15", Family: "auth", Seed: seed}
	sc.World = genWorld(seed, r, p)
	sc.World.StallProb = 0
	if sc.World.Policy != "seq" {
		// statement-level scheduling points in http/auth.go (simgen -stmt-points)
		sc.World.StmtYield = []float64{0.2, 0.5}[r.Intn(2)]
	}
	res := runCustom(t, sc, func(rn *runner) {
		w := rn.w
		sim := w.sim
		secrets := []string{"c2VjcmV0LUE", "c2VjcmV0LUI", "c2VjcmV0LUM"}
		cur := secrets[0]
		si := 0
		if r.Bool(0.3) {
			cur = ""
		}
		w.HDS.SetServerData(hdsServerID, cur)
		var pool []*c15tok
		inner := 0
		// mounted once, as cmd/main.go mounts /smoke-test
		smoke := hagallhttp.VerifyAuthTokenHandler(w.HDS, func(rw http.ResponseWriter, _ *http.Request) { inner++; rw.WriteHeader(200) })
		var lastAdmitted *c15tok
		n := 10 + r.Intn(30)
		g0 := readGauges()
		for step := 0; step < n && !rn.stop(); step++ {
			now := time.Now()
			switch x := r.Intn(20); {
			case x < 4: // HDS event
				switch r.Intn(4) {
				case 0, 1:
					si = (si + 1) % len(secrets)
					cur = secrets[si]
					sim.Stats["fault.hds_secret_rotated"]++
				case 2:
					cur = ""
					sim.Stats["fault.hds_secret_lost"]++
				default:
					cur = secrets[si]
					sim.Stats["fault.hds_registered"]++
				}
				w.HDS.SetServerData(hdsServerID, cur)
				sim.Logf("hds secret %q", cur)
				if lastAdmitted != nil && r.Bool(0.6) {
					pool = append(pool, lastAdmitted) // and present it again soon
				}
				continue
			case x < 7: // the clock moves
				d := []time.Duration{time.Second, 4 * time.Second, time.Minute, time.Hour, 25 * time.Hour}[r.Intn(5)]
				sim.RunFor(d)
				sim.Stats["probe.token_clock_advanced"]++
				continue
			}
			if r.Bool(0.15) {
				// 2-4 websocket attempts in the same instant, valid and invalid tokens mixed: each
				// is decided on its own token (the gates are shared by all connections)
				m := 2 + r.Intn(3)
				type att struct {
					k       *c15tok
					c       *Client
					entered int
				}
				var atts []*att
				for i := 0; i < m; i++ {
					signWith := cur
					if cur == "" || r.Bool(0.5) {
						signWith = "not-the-secret"
					}
					k := &c15tok{secret: signWith, alg: "HS256", iat: now, exp: now.Add(time.Hour)}
					claims := jwt.MapClaims{"iss": "HDS", "app_key": "app", "iat": k.iat.Unix(), "exp": k.exp.Unix(), "jti": fmt.Sprint(r.Uint64())}
					k.iat, k.exp = time.Unix(k.iat.Unix(), 0), time.Unix(k.exp.Unix(), 0)
					k.str, _ = jwt.NewWithClaims(jwt.SigningMethodHS256, claims).SignedString([]byte(k.secret))
					k.desc = fmt.Sprintf("alg=HS256 key=%q (one of %d simultaneous attempts)", k.secret, m)
					a := &att{k: k}
					carrier := []string{"header", "query", "cookie"}[r.Intn(3)]
					a.c = w.Connect(ConnectOpts{Label: fmt.Sprintf("p%d.%d", step, i), Tokens: map[string]string{carrier: k.str}, NoToken: true, Inner: func(conn *websocket.Conn) {
						a.entered++
						inner++
						conn.Close()
					}})
					atts = append(atts, a)
				}
				rn.quiesce()
				tnow := time.Now()
				sim.Stats["probe.simultaneous_handshakes"]++
				for _, a := range atts {
					rn.res.Triggers["auth_attempts"]++
					admitted := a.c.Status == 101
					if admitted != (a.entered == 1) {
						rn.v("C15", "inner-entered-on-reject", "websocket attempt with %s: status %d but the protected handler was entered %d times", a.k.desc, a.c.Status, a.entered)
					}
					switch {
					case a.k.clearlyValid(cur, now) && a.k.clearlyValid(cur, tnow):
						rn.res.Triggers["auth_clearly_valid"]++
						if !admitted {
							rn.v("C15", "rejected-valid-token", "websocket attempt with a token valid under the current secret (%s) was rejected with status %d", a.k.desc, a.c.Status)
						}
					case a.k.clearlyInvalid([]string{cur}, now) && a.k.clearlyInvalid([]string{cur}, tnow):
						rn.res.Triggers["auth_clearly_invalid"]++
						if admitted {
							rn.v("C15", "admitted-without-valid-token", "websocket attempt was admitted with a token that does not verify against the secret currently issued (token: %s)", a.k.desc)
						}
					}
				}
				continue
			}
			// an attempt
			var k *c15tok
			switch {
			case lastAdmitted != nil && lastAdmitted.exp.Sub(now) < 20*time.Second && lastAdmitted.exp.After(now) && r.Bool(0.5):
				// present a token that was admitted a moment ago again, just after it has expired
				k = lastAdmitted
				sim.RunFor(lastAdmitted.exp.Sub(now) + 3*time.Second)
				now = time.Now()
				sim.Stats["probe.token_represented_after_expiry"]++
			case len(pool) > 0 && r.Bool(0.45):
				k = pool[r.Intn(len(pool))]
			default:
				signWith := cur
				if cur == "" || r.Bool(0.15) {
					signWith = secrets[r.Intn(len(secrets))]
				}
				k = mintC15(r, signWith, now)
				pool = append(pool, k)
			}
			carrier := []string{"header", "query", "cookie"}[r.Intn(3)]
			tokens := map[string]string{carrier: k.str}
			single := true
			if r.Bool(0.15) {
				// a second carrier with another token: which one counts is not part of the statement
				other := pool[r.Intn(len(pool))]
				oc := []string{"header", "query", "cookie"}[r.Intn(3)]
				if oc != carrier {
					tokens[oc] = other.str
					single = false
				}
			}
			noToken := r.Bool(0.06)
			if noToken {
				tokens = map[string]string{}
			}
			during := []string{cur}
			rotateNow := r.Bool(0.08)
			path := []string{"ws", "ws", "http"}[r.Intn(3)]
			before := inner
			admitted := false
			status := 0
			if rotateNow {
				// the secret changes at the very instant of the attempt
				si = (si + 1) % len(secrets)
				next := secrets[si]
				during = append(during, next)
				sim.After(0, "hds-rotate", func() { w.HDS.SetServerData(hdsServerID, next) })
				cur = next
				sim.Stats["fault.hds_rotation_during_handshake"]++
			}
			switch path {
			case "ws":
				c := w.Connect(ConnectOpts{Label: fmt.Sprintf("a%d", step), Tokens: tokens, NoToken: true, Inner: func(conn *websocket.Conn) {
					inner++
					conn.Close()
				}})
				rn.quiesce()
				status = c.Status
				admitted = status == 101
				if admitted != (inner == before+1) {
					rn.v("C15", "inner-entered-on-reject", "websocket attempt with %s: status %d but the protected handler was entered %d times", k.desc, status, inner-before)
				}
			default:
				req := httptest.NewRequest("POST", "http://hagall.test/smoke-test", nil)
				applyCarriers(req, tokens)
				rec := httptest.NewRecorder()
				smoke(rec, req)
				sim.Settle()
				status = rec.Code
				admitted = inner == before+1
				if admitted != (status == 200) {
					rn.v("C15", "inner-entered-on-reject", "smoke-test trigger with %s: status %d but the protected handler was entered %d times", k.desc, status, inner-before)
				}
			}
			rn.res.Triggers["auth_attempts"]++
			tnow := time.Now()
			if noToken {
				if admitted {
					rn.v("C15", "admitted-without-valid-token", "%s attempt without any token was admitted (secret held: %v)", path, cur != "")
				}
				continue
			}
			if !single {
				rn.res.Triggers["auth_multi_carrier_no_assertion"]++
				continue
			}
			switch {
			case !rotateNow && k.clearlyValid(cur, now) && k.clearlyValid(cur, tnow):
				rn.res.Triggers["auth_clearly_valid"]++
				rn.res.Triggers["accepted"]++
				if !admitted {
					rn.v("C15", "rejected-valid-token", "%s attempt via %s with a token valid under the current secret (%s) was rejected with status %d", path, carrier, k.desc, status)
				} else {
					lastAdmitted = k
				}
			case k.clearlyInvalid(during, now) && k.clearlyInvalid(during, tnow):
				rn.res.Triggers["auth_clearly_invalid"]++
				if admitted {
					rn.v("C15", "admitted-without-valid-token", "%s attempt via %s was admitted with a token that does not verify against the secret currently issued (current secret set: %v; token: %s; minted %s ago)", path, carrier, cur != "", k.desc, tnow.Sub(k.iat).Round(time.Second))
				} else if path == "ws" && status != 403 && status != 401 {
					rn.v("C15", "admitted-without-valid-token", "websocket attempt rejected with unexpected status %d", status)
				}
			default:
				rn.res.Triggers["auth_no_assertion"]++
			}
		}
		if g := readGauges(); g != g0 {
			rn.v("C15", "side-effect-on-reject", "gauges changed although only harness-owned inner handlers sit behind the gate: %+v -> %+v", g0, g)
		}
	})
	return sc, res
}

func applyCarriers(req *http.Request, tokens map[string]string) {
	if t, ok := tokens["header"]; ok {
		req.Header.Set("Authorization", "Bearer "+t)
	}
	if t, ok := tokens["query"]; ok {
		q := req.URL.Query()
		q.Set("access_token", t)
		req.URL.RawQuery = q.Encode()
	}
	if t, ok := tokens["cookie"]; ok {
		req.AddCookie(&http.Cookie{Name: "access_token", Value: t})
	}
}

func init() {
	props["C15"] = &propSpec{ID: "C15", Custom: runC15,
		Rule: "distinct run digests with at least one attempt carrying a clearly valid token and HDS / clock events in between",
		NonTrivial: func(r *Result) bool {
			return r.Triggers["auth_clearly_valid"] > 0 && r.Triggers["auth_clearly_invalid"] > 0
		}}
}
