package hsim

import (
	"fmt"
	"google.golang.org/protobuf/types/known/timestamppb"
	"sort"
	"strings"
	"testing"
	"time"

	"github.com/aukilabs/hagall-common/messages/hagallpb"
	"github.com/ethereum/go-ethereum/common/hexutil"
	"github.com/ethereum/go-ethereum/crypto"
	"google.golang.org/protobuf/proto"
	"hagallsim/simrt"
)

// runC18: one joined (or not joined) connection asks for a signed latency measurement and
// behaves honestly or not; every round has its own, widely separated round-trip time so that
// the round a statistic was taken from is identifiable.
func runC18(t *testing.T, seed uint64, tier string) (*Scenario, *Result) {
	r := simrt.NewRand(seed, "gen:C18")
	p := histProfile("C18", nil, nil)
	sc := &Scenario{Prop: "C18", Family: "latency", Seed: seed}
	sc.World = genWorld(seed, r, p)
	sc.World.StallProb = 0
	sc.World.Net = NetCfg{MinLat: 100 * time.Microsecond, Window: 64 << 10}
	sc.World.FrameDuration = 15 * time.Millisecond
	sc.World.SortedMaps = false
	n := []int{0, 1, 2, 3, 3, 4, 5, 7, 10, 20, 33, 50, 50, 51, 60, 1000, 1 << 31}[r.Intn(17)]
	if r.Bool(0.5) {
		n = 3 + r.Intn(48)
	}
	wallet := []string{"0xabc", "0x71C7656EC7ab88b098defB751B7401B5f6d8976F", "", "w"}[r.Intn(4)]
	if r.Bool(0.6) {
		wallet = "0x71C7656EC7ab88b098defB751B7401B5f6d8976F"
	}
	joined := r.Bool(0.9)
	behaviour := []string{"honest", "fast", "dup", "unknown", "replay_after", "restart", "second_run"}[r.Intn(7)]
	dupRound := 1 + r.Intn(50)
	// the client's clock (the timestamps it writes) may be off: latencies are the server's
	// business, measured on the server's clock
	skew := []time.Duration{0, 0, 0, -3 * time.Second, 3 * time.Second, -time.Hour, time.Hour, -946684000 * time.Second}[r.Intn(8)]
	stamp := func() *timestamppb.Timestamp { return timestamppb.New(time.Now().Add(skew)) }
	sc.Steps = []Step{{Conn: 0, Op: "signed_latency", N: n, Name: wallet, Variant: behaviour}}
	valid := joined && n >= 3 && n <= 50 && wallet != ""
	stepMS := 10

	res := runCustom(t, sc, func(rn *runner) {
		w := rn.w
		c := rn.client(0)
		witness := rn.client(1)
		_ = witness
		if joined {
			rn.runSeq(&Step{Conn: 0, Op: "join", Sess: "S0"})
		}
		if rn.stop() {
			return
		}
		rn.desync = true
		uuid := c.View.UUID
		type ping struct {
			id       uint32
			at       time.Duration
			answers  int
			answerAt time.Duration
		}
		var pings []*ping
		var refused []uint32
		var finals []*hagallpb.SignedLatencyResponse
		var errs []*hagallpb.ErrorResponse
		measurement := 1
		count := 0 // pings of the current measurement
		curN := n
		rid := c.NextReqID()
		answer := func(id uint32, d time.Duration) {
			w.sim.After(d, "client-pong", func() {
				if c.Ended() {
					return
				}
				c.Send(&hagallpb.Response{Type: hagallpb.MsgType_MSG_TYPE_PING_RESPONSE, Timestamp: stamp(), RequestId: id})
			})
		}
		restarted := false
		c.OnMsg = func(m *RecvMsg) {
			switch x := m.Msg.(type) {
			case *hagallpb.Response:
				if m.Type != 38 {
					return
				}
				count++
				pg := &ping{id: x.RequestId, at: w.sim.Now()}
				pings = append(pings, pg)
				d := time.Duration(count*stepMS) * time.Millisecond
				if behaviour == "fast" {
					d = 0 // a client on the same rack: many rounds per millisecond
				}
				if behaviour == "restart" && !restarted && count == 1+dupRound%3 && valid {
					// do not answer; ask again instead
					restarted = true
					measurement++
					count = 0
					pings = nil
					rid = c.NextReqID()
					curN = 3 + dupRound%5
					c.Send(&hagallpb.SignedLatencyRequest{Type: hagallpb.MsgType_MSG_TYPE_SIGNED_LATENCY_REQUEST, Timestamp: stamp(), RequestId: rid, IterationCount: uint32(curN), WalletAddress: wallet})
					rn.res.Triggers["latency_restart"]++
					return
				}
				pg.answers++
				pg.answerAt = w.sim.Now() + d
				answer(x.RequestId, d)
				if behaviour == "dup" && count == 1+dupRound%max(1, curN) {
					// the same answer again, after the first one has been processed
					pg.answers++
					answer(x.RequestId, d+time.Duration(1+dupRound%7)*time.Millisecond)
					rn.res.Triggers["latency_dup_answer"]++
				}
				if behaviour == "unknown" && count == 1+dupRound%max(1, curN) {
					answer(x.RequestId^0x5a5a5a5a, d/2)
					rn.res.Triggers["latency_unknown_answer"]++
				}
			case *hagallpb.SignedLatencyResponse:
				finals = append(finals, x)
			case *hagallpb.ErrorResponse:
				errs = append(errs, x)
				refused = append(refused, x.RequestId)
			}
		}
		c.Send(&hagallpb.SignedLatencyRequest{Type: hagallpb.MsgType_MSG_TYPE_SIGNED_LATENCY_REQUEST, Timestamp: stamp(), RequestId: rid, IterationCount: uint32(n), WalletAddress: wallet})
		rn.res.Triggers["latency_requests"]++
		// long enough for 50 rounds of up to 500 ms each
		w.sim.RunFor(20 * time.Second)
		rn.quiesce()
		if behaviour == "replay_after" && valid && len(pings) > 0 {
			old := pings[dupRound%len(pings)]
			before := len(pings)
			c.Send(&hagallpb.Response{Type: hagallpb.MsgType_MSG_TYPE_PING_RESPONSE, Timestamp: stamp(), RequestId: old.id})
			rn.res.Triggers["latency_replay_after"]++
			w.sim.RunFor(2 * time.Second)
			rn.quiesce()
			if len(pings) != before || len(finals) > 1 {
				rn.v("C18", "refused-ping-advanced", "an answer to ping %d replayed after the measurement had completed made the server issue %d more ping(s) and %d more report(s)", old.id, len(pings)-before, len(finals)-1)
			}
			found := false
			for _, id := range refused {
				if id == old.id {
					found = true
				}
			}
			if !found {
				rn.v("C18", "refused-ping-advanced", "an answer to ping %d replayed after the measurement had completed was not refused", old.id)
			}
		}
		if behaviour == "second_run" && valid {
			// a second, complete measurement on the same connection
			rid = c.NextReqID()
			pings, finals, count = nil, nil, 0
			curN = 3 + dupRound%6
			c.Send(&hagallpb.SignedLatencyRequest{Type: hagallpb.MsgType_MSG_TYPE_SIGNED_LATENCY_REQUEST, Timestamp: stamp(), RequestId: rid, IterationCount: uint32(curN), WalletAddress: wallet})
			rn.res.Triggers["latency_second_run"]++
			w.sim.RunFor(10 * time.Second)
			rn.quiesce()
		}

		if !valid {
			if len(pings) > 0 || len(finals) > 0 {
				rn.v("C18", "started-invalid", "a measurement was started for an invalid request (joined=%v iterations=%d wallet=%q): %d pings, %d reports", joined, n, wallet, len(pings), len(finals))
			}
			ok := false
			for _, e := range errs {
				if e.RequestId == rid {
					ok = true
				}
			}
			if !ok && !c.Ended() {
				rn.v("C18", "started-invalid", "an invalid request (joined=%v iterations=%d wallet=%q) was not answered with an error", joined, n, wallet)
			}
			rn.res.Triggers["latency_invalid"]++
			return
		}
		rn.res.Triggers["accepted"]++
		// exactly the requested number of rounds, one report
		if len(pings) != curN {
			rn.v("C18", "round-count", "%d rounds were requested (measurement %d, behaviour %s), the server issued %d pings", curN, measurement, behaviour, len(pings))
			return
		}
		if len(finals) != 1 {
			rn.v("C18", "round-count", "%d reports were sent for one measurement of %d rounds (behaviour %s)", len(finals), curN, behaviour)
			return
		}
		f := finals[0]
		if f.RequestId != rid {
			rn.v("C18", "data-binding", "the report answers request %d, the measurement was requested as %d", f.RequestId, rid)
		}
		sig, err := hexutil.Decode(f.Signature)
		if err != nil {
			rn.v("C18", "signature", "signature is not hex: %v", err)
			return
		}
		pub, err := crypto.SigToPub(crypto.Keccak256(f.Data), sig)
		if err != nil || crypto.PubkeyToAddress(*pub) != crypto.PubkeyToAddress(w.PrivKey.PublicKey) {
			rn.v("C18", "signature", "the signature does not recover the server's wallet over the returned data (err=%v)", err)
			return
		}
		var d hagallpb.LatencyData
		if err := proto.Unmarshal(f.Data, &d); err != nil {
			rn.v("C18", "data-binding", "data does not decode: %v", err)
			return
		}
		if d.ClientId != "client-0" || d.SessionId != uuid || d.WalletAddress != wallet {
			rn.v("C18", "data-binding", "data names client %q session %q wallet %q; expected client-0, %s, %s", d.ClientId, d.SessionId, d.WalletAddress, uuid, wallet)
		}
		if int(d.IterationCount) != curN {
			rn.v("C18", "round-count", "data reports %d iterations, %d were requested", d.IterationCount, curN)
		}
		want := map[uint32]int{}
		for _, pg := range pings {
			want[pg.id]++
		}
		got := map[uint32]int{}
		for _, id := range d.PingRequestIds {
			got[id]++
		}
		var diff []string
		for id, k := range want {
			if got[id] != k {
				diff = append(diff, fmt.Sprintf("issued %d listed %d times", id, got[id]))
			}
		}
		for id := range got {
			if want[id] == 0 {
				diff = append(diff, fmt.Sprintf("listed %d was not issued for this measurement", id))
			}
		}
		sort.Strings(diff)
		if len(diff) > 0 {
			rn.v("C18", "ping-id-set", "ping_request_ids differ from the ids issued: %s", strings.Join(diff, "; "))
		}
		if !(0 <= d.Min && d.Min <= d.Mean && d.Mean <= d.Max && d.Min <= d.P95 && d.P95 <= d.Max && d.Min <= d.Last && d.Last <= d.Max) {
			rn.v("C18", "stats-inconsistent", "min=%v mean=%v max=%v p95=%v last=%v", d.Min, d.Mean, d.Max, d.P95, d.Last)
		}
		// last = latency of the final round (rounds are 10 ms apart; tolerance 2 ms)
		fin := pings[len(pings)-1]
		expect := float64((fin.answerAt - fin.at + 2*sc.World.Net.MinLat) / time.Microsecond)
		if fin.answers >= 1 && (float64(d.Last) < expect-2000 || float64(d.Last) > expect+2000) {
			rn.v("C18", "last-not-final-round", "last=%vus, the final round took about %.0fus (rounds are %d ms apart)", d.Last, expect, stepMS)
		}
		// refused answers: duplicates and unknown ids
		if behaviour == "dup" || behaviour == "unknown" {
			if len(refused) == 0 {
				rn.v("C18", "refused-ping-advanced", "behaviour %s: the extra ping answer was not refused", behaviour)
			}
		}
	})
	return sc, res
}

func init() {
	props["C18"] = &propSpec{ID: "C18", Custom: runC18,
		Rule:       "distinct run digests in which a valid measurement ran to completion",
		NonTrivial: func(r *Result) bool { return r.Triggers["accepted"] > 0 }}
}
