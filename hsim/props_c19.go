package hsim

import (
	"bytes"
	"encoding/json"
	"fmt"
	"sort"
	"strings"
	"testing"
	"time"

	"github.com/aukilabs/hagall-common/messages/hagallpb"
	dcrecdsa "github.com/decred/dcrd/dcrec/secp256k1/v4/ecdsa"
	"github.com/ethereum/go-ethereum/crypto"
	"golang.org/x/crypto/sha3"
	"hagallsim/simrt"
)

const receiptKeyHex = "4c0883a69102937d6231471b5dbb6204fe5129617082792ae468d01a3f362318"

type receiptSub struct {
	Conn    int    `json:"c"`
	Text    string `json:"text"`
	Hash    []byte `json:"hash"`
	Sig     []byte `json:"sig"`
	Corrupt string `json:"corrupt"`
	RID     uint32 `json:"-"`
}

// validReceipt is the oracle's own decision (Keccak-256 from x/crypto/sha3, recoverability from
// decred's RecoverCompact), independent of the functions the server calls.
func validReceipt(text string, hash, sig []byte) bool {
	h := sha3.NewLegacyKeccak256()
	h.Write([]byte(text))
	if !bytes.Equal(h.Sum(nil), hash) {
		return false
	}
	if len(sig) != 65 || len(hash) != 32 || sig[64] > 3 {
		return false
	}
	compact := make([]byte, 65)
	compact[0] = sig[64] + 27
	copy(compact[1:], sig[:64])
	_, _, err := dcrecdsa.RecoverCompact(compact, hash)
	return err == nil
}

func genReceipts(r *simrt.Rand, conns int, big bool) []receiptSub {
	key, _ := crypto.HexToECDSA(receiptKeyHex)
	n := []int{1, 2, 5, 20, 60, 140, 300}[r.Intn(7)]
	if big {
		n = []int{130, 140, 200, 300}[r.Intn(4)]
	}
	var out []receiptSub
	var clean []int // indices of unmodified submissions
	nonce := r.Uint64()
	for i := 0; i < n; i++ {
		// (the nonce keeps the receipts of different runs of one worker process apart: whatever
		// the server keeps process-wide must not couple one run's outcome to another's)
		text := fmt.Sprintf(`{"app_id":"a","client_id":"c%d","session_id":"s-%x","participant_id":%d,"bytes_sent":%d}`, i, nonce, i, r.Intn(100000))
		hash := crypto.Keccak256([]byte(text))
		sig, _ := crypto.Sign(hash, key)
		s := receiptSub{Conn: r.Intn(conns), Text: text, Hash: hash, Sig: sig}
		if len(clean) > 0 && r.Bool(0.12) {
			// a receipt submitted (and, if valid, accepted) before, again: unchanged, or with only
			// its signature damaged - each submission is judged on its own
			prev := out[clean[r.Intn(len(clean))]]
			s.Text, s.Hash, s.Sig = prev.Text, prev.Hash, append([]byte(nil), prev.Sig...)
			switch r.Intn(4) {
			case 0:
				s.Corrupt = "resubmitted"
			case 1:
				s.Corrupt = "resub-sig-junk"
				s.Sig = bytes.Repeat([]byte{0xcd}, 65)
			case 2:
				s.Corrupt = "resub-sig-short"
				s.Sig = s.Sig[:64]
			default:
				s.Corrupt = "resub-sig-v"
				s.Sig[64] = 9
			}
			out = append(out, s)
			continue
		}
		switch x := r.Intn(20); {
		case x == 0:
			s.Corrupt = "hash-bit"
			s.Hash = append([]byte(nil), hash...)
			s.Hash[r.Intn(32)] ^= 1 << uint(r.Intn(8))
		case x == 1:
			s.Corrupt = "text"
			s.Text += " "
		case x == 2:
			s.Corrupt = "sig-junk"
			s.Sig = bytes.Repeat([]byte{0xab}, 65)
		case x == 3:
			s.Corrupt = "sig-short"
			s.Sig = sig[:64]
		case x == 4:
			s.Corrupt = "sig-v27"
			s.Sig = append([]byte(nil), sig...)
			s.Sig[64] += 27
		case x == 5:
			s.Corrupt = "sig-zero"
			s.Sig = make([]byte, 65)
		case x == 6:
			s.Corrupt = "empty-" + []string{"text", "hash", "sig"}[r.Intn(3)]
			switch s.Corrupt {
			case "empty-text":
				s.Text = ""
			case "empty-hash":
				s.Hash = nil
			default:
				s.Sig = nil
			}
		case x == 7:
			s.Corrupt = "hash-short"
			s.Hash = hash[:31]
		case x == 9:
			s.Corrupt = "hash-prepend"
			s.Hash = append([]byte{[]byte{0, 1, '0'}[r.Intn(3)]}, hash...)
		case x == 10:
			s.Corrupt = "hash-append"
			s.Hash = append(append([]byte(nil), hash...), 0)
		case x == 11:
			s.Corrupt = "hash-0x-prefix"
			s.Hash = append([]byte("0x"), hash...)
		case x == 8:
			s.Corrupt = "sig-r-bit"
			s.Sig = append([]byte(nil), sig...)
			s.Sig[r.Intn(32)] ^= 1
		}
		if s.Corrupt == "" {
			clean = append(clean, len(out))
		}
		out = append(out, s)
	}
	return out
}

// runC19 is its own small world: 1..6 connections submit receipts while the credit service is
// reachable, slow, hanging or refusing, and the forwarder may be stalled by the scheduler so
// that the queue of 128 fills.
func runC19(t *testing.T, seed uint64, tier string) (*Scenario, *Result) {
	r := simrt.NewRand(seed, "gen:C19")
	p := histProfile("C19", nil, nil)
	sc := &Scenario{Prop: "C19", Family: "receipts", Seed: seed}
	sc.World = genWorld(seed, r, p)
	sc.World.NCSMode = []string{"up", "up", "slow", "hang", "refuse", "drop_reply"}[r.Intn(6)]
	conns := 1 + r.Intn(6)
	stallForwarder := r.Bool(0.4)
	subs := genReceipts(r, conns, stallForwarder && r.Bool(0.6))
	joinFirst := r.Bool(0.5)
	res := runCustom(t, sc, func(rn *runner) {
		w := rn.w
		var cs []*Client
		for i := 0; i < conns; i++ {
			c := rn.client(i)
			cs = append(cs, c)
			if joinFirst {
				rn.runSeq(&Step{Conn: i, Op: "join", Sess: "S0"})
			}
		}
		if rn.stop() {
			return
		}
		rn.desync = true
		if stallForwarder {
			w.sim.StallTasks("receipt/handler.go", time.Duration(1+r.Intn(5))*time.Second)
			rn.res.Triggers["forwarder_stalled"]++
		}
		rn.markAll()
		for i := range subs {
			s := &subs[i]
			c := cs[s.Conn]
			if c.Ended() {
				continue
			}
			s.RID = c.NextReqID()
			c.Send(&hagallpb.ReceiptRequest{Type: hagallpb.MsgType_MSG_TYPE_RECEIPT_REQUEST, Timestamp: now(), RequestId: s.RID, Receipt: s.Text, Hash: s.Hash, Signature: s.Sig})
		}
		rn.res.Triggers["receipts_submitted"] += len(subs)
		rn.quiesce()
		// the submitting connection is never blocked: while the forwarder is still stalled, a
		// ping is answered
		for _, c := range cs {
			if !c.Ended() && !rn.responsive(c) {
				rn.v("C19", "submit-blocked", "%s submitted receipts and is no longer served (forwarder stalled=%v, credit service %s): %s", c.Label, stallForwarder, sc.World.NCSMode, strings.Join(w.sim.Describe(), "; "))
				return
			}
		}
		// let stalls and slow posts finish
		w.sim.RunFor(12 * time.Second)
		rn.quiesce()

		// answers: exactly one per submission that reached a live connection
		accepted := map[string]int{} // body -> times accepted into the queue
		validAccepted := map[string]bool{}
		maybe := map[string]int{} // sent, but the connection ended before an answer could arrive
		maybeValid := map[string]bool{}
		for i := range subs {
			s := &subs[i]
			if s.RID == 0 {
				continue
			}
			c := cs[s.Conn]
			var ans []*RecvMsg
			for _, m := range c.Msgs {
				if m.ReqID == s.RID && (m.Type == 41 || m.Type == 0) {
					ans = append(ans, m)
				}
			}
			if len(ans) == 0 {
				if c.Ended() {
					// the connection was ended (after a too-busy or bad-request answer to an earlier
					// one): whether this one was queued cannot be known from outside
					maybe[receiptBody(s)]++
					if validReceipt(s.Text, s.Hash, s.Sig) {
						maybeValid[receiptBody(s)] = true
					}
					continue
				}
				rn.v("C19", "answer-count", "receipt %d (%s) submitted by %s was never answered", i, s.Corrupt, c.Label)
				return
			}
			if len(ans) > 1 {
				rn.v("C19", "answer-count", "receipt %d (%s) submitted by %s was answered %d times", i, s.Corrupt, c.Label, len(ans))
				return
			}
			empty := s.Text == "" || len(s.Hash) == 0 || len(s.Sig) == 0
			switch x := ans[0].Msg.(type) {
			case *hagallpb.ErrorResponse:
				switch {
				case empty && x.Code != eBad:
					rn.v("C19", "answer-outcome", "receipt %d with an empty field was answered %v", i, x.Code)
				case !empty && x.Code != eBusy:
					rn.v("C19", "answer-outcome", "receipt %d (%s, no empty field) was refused with %v", i, s.Corrupt, x.Code)
				case !empty && x.Code == eBusy:
					rn.res.Triggers["receipt_too_busy"]++
				}
			case *hagallpb.ReceiptResponse:
				if empty {
					rn.v("C19", "answer-outcome", "receipt %d with an empty field was accepted", i)
				}
				body := receiptBody(s)
				accepted[body]++
				if validReceipt(s.Text, s.Hash, s.Sig) {
					validAccepted[body] = true
				}
			}
		}
		// forwarded set
		posts := map[string]int{}
		for _, p := range w.NCS.Posts {
			posts[canonJSON(p.Body)]++
			if p.Path != "/receipt" {
				rn.v("C19", "forwarded-altered", "a receipt was posted to %q", p.Path)
			}
		}
		var keys []string
		for k := range posts {
			keys = append(keys, k)
		}
		sort.Strings(keys)
		for _, k := range keys {
			if accepted[k]+maybe[k] == 0 {
				rn.v("C19", "forwarded-altered", "the credit service received a receipt nobody submitted in that form: %.200s", k)
				return
			}
			if !validAccepted[k] && !maybeValid[k] {
				rn.v("C19", "invalid-forwarded", "an invalid receipt was forwarded to the credit service: %.200s", k)
				return
			}
			if posts[k] > accepted[k]+maybe[k] {
				rn.v("C19", "forwarded-twice", "a receipt accepted %d time(s) was forwarded %d times: %.160s", accepted[k], posts[k], k)
				return
			}
		}
		if sc.World.NCSMode == "up" || sc.World.NCSMode == "slow" || sc.World.NCSMode == "drop_reply" {
			for k := range validAccepted {
				if posts[k] < accepted[k] {
					rn.v("C19", "valid-not-forwarded", "a valid receipt accepted %d time(s) reached the credit service %d times (service %s): %.160s", accepted[k], posts[k], sc.World.NCSMode, k)
					return
				}
			}
		}
		rn.res.Triggers["receipts_forwarded"] += len(w.NCS.Posts)
		if len(validAccepted) > 0 {
			rn.res.Triggers["accepted"]++
		}
	})
	return sc, res
}

func receiptBody(s *receiptSub) string {
	b, _ := json.Marshal(map[string]any{"receipt": s.Text, "hash": s.Hash, "signature": s.Sig})
	return canonJSON(b)
}

func canonJSON(b []byte) string {
	var v map[string]any
	if json.Unmarshal(b, &v) != nil {
		return "unparsable:" + string(b)
	}
	out, _ := json.Marshal(v) // map keys sorted
	return string(out)
}

func init() {
	props["C19"] = &propSpec{ID: "C19", Custom: runC19,
		Rule:       "distinct run digests in which at least one valid receipt was accepted into the queue",
		NonTrivial: func(r *Result) bool { return r.Triggers["accepted"] > 0 }}
}
