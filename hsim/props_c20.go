package hsim

import (
	"fmt"
	"math"
	"sort"
	"strings"

	"github.com/aukilabs/hagall-common/messages/dagazpb"
	"github.com/aukilabs/hagall/modules/dagaz"
	"hagallsim/simrt"
)

type planeVal struct {
	cx, cy, cz, ex, ey, ez float32
	mc                     uint32
}

func planeOf(q *dagaz.Quad) planeVal {
	cx, cy, cz := dagaz.VerifXYZ(q.Center)
	ex, ey, ez := dagaz.VerifXYZ(q.Extents)
	return planeVal{cx, cy, cz, ex, ey, ez, q.MergeCount}
}

func planeOfPB(q *dagazpb.Quad) planeVal {
	return planeVal{q.GetCenter().GetX(), q.GetCenter().GetY(), q.GetCenter().GetZ(), q.GetExtents().GetX(), q.GetExtents().GetY(), q.GetExtents().GetZ(), q.GetMergeCount()}
}

// gridOf returns the ground-plane index of a live session (nil when none yet).
func (r *runner) gridOf(id string) *dagaz.RegularGrid {
	ss, ok := r.w.Sessions.GetByGlobalID(id)
	if !ok {
		return nil
	}
	st, ok := ss.ModuleState("dagaz")
	if !ok {
		return nil
	}
	g, _ := st.(*dagaz.State).SpatialPartition.(*dagaz.RegularGrid)
	return g
}

// checkGrid evaluates the C20 invariants over the exported fields of the index of every live
// session, and the shared / kept-for-the-session's-life clauses against the previous check.
func (r *runner) checkGrid(st *Step, c *Client) {
	if !r.m.Modules["dagaz"] || r.stop() {
		return
	}
	if r.gridSeen == nil {
		r.gridSeen = map[string]int{}
	}
	r.w.sim.Inspect(func() {
		for _, id := range sortedSessionIDs(r.m.Live) {
			ms := r.m.Live[id]
			g := r.gridOf(id)
			if g == nil {
				continue
			}
			minx, _, minz := dagaz.VerifXYZ(g.Min)
			maxx, _, maxz := dagaz.VerifXYZ(g.Max)
			res := float64(g.Resolution)
			planes := map[*dagaz.Quad]bool{}
			for i := range g.Grid {
				for j := range g.Grid[i] {
					for _, q := range g.Grid[i][j] {
						planes[q] = true // (a plane listed twice in one cell is not excluded by the statement)
					}
				}
			}
			if int(g.PlaneCount) != len(planes) {
				r.v("C20", "plane-count", "session %s: PlaneCount is %d, %d distinct planes are stored", id, g.PlaneCount, len(planes))
			}
			if prev, ok := r.gridSeen[ms.UUID]; ok && len(planes) < prev {
				r.v("C20", "samples-lost", "session %s: %d planes were stored, now %d (after %s by %s): samples must be kept for as long as the session lives", id, prev, len(planes), st.Op, c.Label)
			}
			r.gridSeen[ms.UUID] = len(planes)
			if len(planes) > 0 {
				r.res.Triggers["grid_planes"]++
			}
			if g.MergeCount > 0 {
				r.res.Triggers["grid_merged"]++
			}
			if len(g.Grid) > 1 && len(g.Grid[0]) > 1 {
				r.res.Triggers["grid_grown"]++
			}
			for q := range planes {
				p := planeOf(q)
				lox, hix, loz, hiz := float64(p.cx-p.ex), float64(p.cx+p.ex), float64(p.cz-p.ez), float64(p.cz+p.ez)
				// (a millimetre of tolerance, as for cell overlap: merged planes are convex
				// combinations computed in float32 and can overshoot a bound by one ulp)
				const tol = 1e-3
				if lox < float64(minx)-tol || hix > float64(maxx)+tol || loz < float64(minz)-tol || hiz > float64(maxz)+tol {
					r.v("C20", "bounds", "session %s: plane %+v has a footprint x[%g,%g] z[%g,%g] outside the grid bounds x[%g,%g] z[%g,%g]", id, p, lox, hix, loz, hiz, minx, maxx, minz, maxz)
				}
				// every cell whose interior the footprint's interior overlaps
				for i := range g.Grid {
					za, zb := float64(minz)+float64(i)*res, float64(minz)+float64(i+1)*res
					// float32 rounding in the implementation's own cell arithmetic can move an edge
					// by a fraction of a micrometre: an overlap thinner than a millimetre is not
					// held against it
					const tol = 1e-3
					if !(loz < zb-tol && hiz > za+tol) {
						continue
					}
					for j := range g.Grid[i] {
						xa, xb := float64(minx)+float64(j)*res, float64(minx)+float64(j+1)*res
						if !(lox < xb-tol && hix > xa+tol) {
							continue
						}
						found := false
						for _, o := range g.Grid[i][j] {
							if o == q {
								found = true
							}
						}
						if !found {
							r.v("C20", "cell-registration", "session %s: plane %+v (merged %d times) overlaps cell row %d col %d (x[%g,%g) z[%g,%g)) but is not registered there", id, p, p.mc, i, j, xa, xb, za, zb)
						}
					}
				}
				// a vertical ray through the centre hits a plane
				ray := dagaz.Ray{From: dagaz.NewVector3f(p.cx, p.cy+1, p.cz), To: dagaz.NewVector3f(p.cx, p.cy-1, p.cz)}
				if hit, _ := g.IntersectQuad(ray); hit == nil {
					r.v("C20", "centre-ray-miss", "session %s: a vertical ray through the centre of stored plane %+v hits nothing", id, p)
				}
			}
			// a region query covering the grid returns every stored plane exactly once
			got := g.GetRegion(dagaz.NewVector3f(minx-1, 0, minz-1), dagaz.NewVector3f(maxx+1, 0, maxz+1))
			gs := map[*dagaz.Quad]int{}
			for _, q := range got {
				gs[q]++
			}
			for q := range planes {
				if gs[q] != 1 {
					r.v("C20", "region-query", "session %s: a region query covering the grid returns stored plane %+v %d times", id, planeOf(q), gs[q])
				}
			}
			if len(got) != len(planes) {
				r.v("C20", "region-query", "session %s: a region query covering the grid returns %d planes, %d are stored", id, len(got), len(planes))
			}
		}
	})
}

// checkGridAnswer compares what a member is told over the protocol with the stored planes.
func (r *runner) checkGridAnswer(st *Step, c *Client, got []*RecvMsg) {
	mc := r.m.conn(st.Conn)
	if mc.Session == nil || !r.m.Modules["dagaz"] || r.stop() {
		return
	}
	var stored []planeVal
	r.w.sim.Inspect(func() {
		g := r.gridOf(mc.Session.ID)
		if g == nil {
			return
		}
		seen := map[*dagaz.Quad]bool{}
		for i := range g.Grid {
			for j := range g.Grid[i] {
				for _, q := range g.Grid[i][j] {
					if !seen[q] {
						seen[q] = true
						stored = append(stored, planeOf(q))
					}
				}
			}
		}
	})
	key := func(l []planeVal) string {
		var s []string
		for _, p := range l {
			s = append(s, fmt.Sprintf("%+v", p))
		}
		sort.Strings(s)
		return strings.Join(s, ";")
	}
	for _, m := range got {
		switch x := m.Msg.(type) {
		case *dagazpb.DagazGetRegionResponse:
			if st.Variant != "cover" {
				continue
			}
			var l []planeVal
			for _, q := range x.Quads {
				l = append(l, planeOfPB(q))
			}
			if key(l) != key(stored) {
				r.v("C20", "samples-not-shared", "%s asked for the whole region and was given %d planes [%s], the session stores %d [%s]", c.Label, len(l), key(l), len(stored), key(stored))
			}
			r.res.Triggers["grid_region_answer"]++
		case *dagazpb.DagazGetGroundPlaneResponse:
			if st.Variant != "centre" || len(stored) == 0 || len(st.F) < 6 {
				continue
			}
			// asserted only when the vertical ray really passes through a stored plane, clear of
			// its edges (the sample the ray was aimed at may have been merged into another plane)
			through := false
			for _, sp := range stored {
				dx, dz := float64(st.F[0]-sp.cx), float64(st.F[2]-sp.cz)
				lo, hi := math.Min(float64(st.F[1]), float64(st.F[4])), math.Max(float64(st.F[1]), float64(st.F[4]))
				if math.Abs(dx) < float64(sp.ex)-0.01 && math.Abs(dz) < float64(sp.ez)-0.01 && float64(sp.cy) > lo+0.01 && float64(sp.cy) < hi-0.01 {
					through = true
				}
			}
			if !through {
				continue
			}
			p := planeOfPB(x.Ground)
			if p.ex == 0 && p.ez == 0 && p.cx == 0 && p.cz == 0 && p.cy == 0 {
				r.v("C20", "centre-ray-miss", "%s sent a vertical ray through the centre of a stored plane (%v) and was told nothing is hit", c.Label, st.F)
			}
			r.res.Triggers["grid_ray_answer"]++
		}
	}
}

func genC20(seed uint64, tier string) *Scenario {
	r := simrt.NewRand(seed, "gen:C20")
	p := histProfile("C20", nil, nil)
	g := &genState{r: r, p: p, joined: map[int]string{}, dead: map[int]bool{}, sessN: 1, nConns: 3}
	g.join(0, "S0")
	if r.Bool(0.8) {
		g.join(1, "S0")
	}
	n := 4 + r.Intn(16)
	if tier == "thorough" {
		n *= 2
	}
	if r.Bool(0.2) {
		// planes whose edges lie exactly on cell boundaries, merged a few times, then the grid
		// origin moves (a far sample on the negative side) and they are merged again: the cells
		// a plane occupies must not depend on where the origin happens to be
		res := float32(2)
		axisZ := r.Bool(0.5)
		mk := func(along, across, half float32, y float32, eAcross float32) QuadSpec {
			if axisZ {
				return QuadSpec{C: [3]float32{across, y, along}, E: [3]float32{eAcross, 0, half}}
			}
			return QuadSpec{C: [3]float32{along, y, across}, E: [3]float32{half, 0, eAcross}}
		}
		k := float32(1 + r.Intn(6))
		half := []float32{0.25, 0.5, 0.75, 1, 1.5}[r.Intn(5)]
		y := float32(r.Intn(3))
		across := float32(r.Intn(9)-4) * 0.5
		ea := []float32{0.1, 0.5, 1}[r.Intn(3)]
		centre := k*res - half // the far edge sits on a cell boundary
		if r.Bool(0.5) {
			centre = k*res + half // or the near edge does
		}
		g.steps = append(g.steps, Step{Conn: 0, Op: "quad_sample", Quads: []QuadSpec{mk(centre, across, half, y, ea)}})
		for i := r.Intn(3); i > 0; i-- {
			d := float32(r.Intn(5)-2) * 0.25
			g.steps = append(g.steps, Step{Conn: 0, Op: "quad_sample", Quads: []QuadSpec{mk(centre+d, across, []float32{0.1, 0.25, 0.5}[r.Intn(3)], y+0.2*float32(r.Intn(2)), ea)}})
		}
		far := -float32(8 + r.Intn(50))
		g.steps = append(g.steps, Step{Conn: 0, Op: "quad_sample", Quads: []QuadSpec{mk(far, across, 1.5, y-3, 0.5)}})
		for i := 1 + r.Intn(3); i > 0; i-- {
			d := float32(r.Intn(5)-2) * 0.25
			g.steps = append(g.steps, Step{Conn: 0, Op: "quad_sample", Quads: []QuadSpec{mk(centre+d, across, []float32{0.5, 1.5, 2.5, 4}[r.Intn(4)], y+0.2*float32(r.Intn(2)), ea)}})
		}
		g.steps = append(g.steps, Step{Conn: 0, Op: "get_region", Variant: "cover", F: []float32{-200, 0, -200, 200, 0, 200}})
	}
	// a pool of centres so that merges and cascade merges happen
	type pt struct{ x, y, z float32 }
	var pool []pt
	coord := func() float32 {
		switch r.Intn(4) {
		case 0:
			return float32(r.Intn(129)-64) * 0.5
		case 1:
			return float32(r.Intn(17)-8) + float32(r.Intn(4))*0.25
		default:
			return float32(r.Intn(9)-4) * 0.5
		}
	}
	var lastC *pt
	for i := 0; i < n; i++ {
		members := g.liveJoined()
		if len(members) == 0 {
			g.join(0, "S0")
			continue
		}
		c := members[r.Intn(len(members))]
		switch x := r.Intn(20); {
		case x < 11:
			mk := func() []QuadSpec {
				var qs []QuadSpec
				for k := 1 + r.Intn(3); k > 0; k-- {
					var ce pt
					switch {
					case len(pool) > 0 && r.Bool(0.55):
						b := pool[r.Intn(len(pool))]
						ce = pt{b.x + float32(r.Intn(5)-2)*0.25, b.y + float32(r.Intn(5)-2)*0.2, b.z + float32(r.Intn(5)-2)*0.25}
					default:
						ce = pt{coord(), float32(r.Intn(5)-2) * 0.5, coord()}
					}
					ex := []float32{0.1, 0.25, 0.5, 0.75, 1, 1.5, 2.5, 4}[r.Intn(8)]
					ez := []float32{0.1, 0.25, 0.5, 0.75, 1, 1.5, 2.5, 4}[r.Intn(8)]
					if math.Abs(float64(ce.x))+float64(ex) > 64 || math.Abs(float64(ce.z))+float64(ez) > 64 {
						continue
					}
					pool = append(pool, ce)
					cc := ce
					lastC = &cc
					qs = append(qs, QuadSpec{C: [3]float32{ce.x, ce.y, ce.z}, E: [3]float32{ex, 0, ez}})
				}
				return qs
			}
			qs := mk()
			if len(qs) > 0 && len(members) >= 2 && r.Bool(0.25) {
				// two or three members sample at the same instant (outside the statement's
				// quantifier; the index must still be complete afterwards)
				g.nextBlk++
				g.steps = append(g.steps, Step{Conn: c, Op: "quad_sample", Quads: qs, Block: g.nextBlk})
				perm := r.Perm(len(members))
				extra := 0
				for _, pi := range perm {
					if members[pi] == c || extra >= 2 {
						continue
					}
					if q2 := mk(); len(q2) > 0 {
						g.steps = append(g.steps, Step{Conn: members[pi], Op: "quad_sample", Quads: q2, Block: g.nextBlk})
						extra++
					}
					if r.Bool(0.5) {
						break
					}
				}
			} else if len(qs) > 0 {
				g.steps = append(g.steps, Step{Conn: c, Op: "quad_sample", Quads: qs})
			}
		case x < 13:
			g.steps = append(g.steps, Step{Conn: c, Op: "get_region", Variant: "cover", F: []float32{-200, 0, -200, 200, 0, 200}})
		case x < 15 && lastC != nil:
			g.steps = append(g.steps, Step{Conn: c, Op: "get_ground", Variant: "centre", F: []float32{lastC.x, lastC.y + 1, lastC.z, lastC.x, lastC.y - 1, lastC.z}})
		case x < 16:
			g.steps = append(g.steps, Step{Conn: c, Op: "get_region", F: []float32{coord(), 0, coord(), coord(), 0, coord()}})
		case x < 17:
			g.steps = append(g.steps, Step{Conn: c, Op: "debug_info"})
		case x < 18:
			if nc, ok := g.freshConn(); ok {
				g.join(nc, "S0")
			}
		case x < 19:
			// a member leaves at the very instant another one joins (when it is the sole member
			// the session must survive with its planes if the join wins)
			if nc, ok := g.freshConn(); ok {
				g.nextBlk++
				g.steps = append(g.steps, Step{Conn: c, Op: "close", Block: g.nextBlk}, Step{Conn: nc, Op: "join", Sess: "S0", Block: g.nextBlk})
				g.dead[c] = true
				g.joined[c] = ""
				g.joined[nc] = "S0"
			}
		default:
			if len(members) > 1 {
				g.steps = append(g.steps, Step{Conn: c, Op: "close"})
				g.dead[c] = true
				g.joined[c] = ""
			}
		}
	}
	// a second member asks for everything at the end
	if nc, ok := g.freshConn(); ok {
		g.join(nc, "S0")
		g.steps = append(g.steps, Step{Conn: nc, Op: "get_region", Variant: "cover", F: []float32{-200, 0, -200, 200, 0, 200}})
	}
	sc := &Scenario{Prop: "C20", Family: "grid", Seed: seed, Steps: g.steps}
	sc.World = genWorld(seed, r, p)
	sc.World.Modules = []string{"vikja", "odal", "dagaz"}
	if r.Bool(0.5) {
		sc.World.Modules = []string{"dagaz"}
	}
	return sc
}

func init() {
	props["C20"] = &propSpec{ID: "C20",
		Rule:       "distinct run digests in which at least one plane was stored and the index invariants were evaluated (pure_clause_evaluations counts the non-simulated geometric-primitive comparisons separately)",
		NonTrivial: func(r *Result) bool { return r.Triggers["grid_planes"] > 0 },
		Gen: func(seed uint64, tier string) *Scenario {
			sc := genC20(seed, tier)
			sc.PureSide = 40
			return sc
		}}
}
