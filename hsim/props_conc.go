package hsim

import (
	"fmt"
	"os"
	"sort"
	"strings"
	"testing"
	"time"

	"github.com/aukilabs/hagall/models"
	"hagallsim/simrt"
)

// checkBeliefs: what the server told each connection about where it is must be true in the
// registry (C07: a join answered with success leaves the participant in a live session that
// others can find under the returned id). Needs no model.
func (r *runner) checkBeliefs() {
	r.w.sim.Inspect(func() {
		ids := map[string]string{}
		for _, ci := range r.sortedClients() {
			c := r.clients[ci]
			v := c.View
			if c.Ended() || c.sentFIN || !v.Joined || c.rt == nil {
				continue
			}
			if c.rt.CurrentSession() == nil {
				// every answer has been delivered and none of them told the client that it is out
				// of its session (a refused request changes nothing), yet the server took it out
				d := fmt.Sprintf("%s was told it is participant %d of session %s and was never told otherwise (its last join request, if any, was refused), but the server has taken it out of the session", c.Label, v.PID, v.SessionID)
				r.v("C04", "refused-changed-state", "%s", d)
				r.v("C02", "relay-of-refused", "%s", d)
				r.v("C07", "orphaned-join", "%s", d)
				continue
			}
			// two connections that were each told, and never told otherwise, that they are in
			// session <id> were given different uuids: the id was handed out twice
			if u, dup := ids[v.SessionID]; dup && u != v.UUID {
				r.v("C10", "session-id-shared", "two live sessions (%s, %s) share the id %s", u, v.UUID, v.SessionID)
				r.v("C07", "session-id-shared", "two live sessions (%s, %s) share the id %s", u, v.UUID, v.SessionID)
			}
			ids[v.SessionID] = v.UUID
			ss, ok := r.w.Sessions.GetByGlobalID(v.SessionID)
			if !ok {
				r.v("C07", "orphaned-join", "%s was told it joined session %s (%s) as participant %d, but that id does not resolve", c.Label, v.SessionID, v.UUID, v.PID)
				r.v("C03", "live-session-cut-off", "%s is a member of session %s (%s), but the id does not resolve for anyone else", c.Label, v.SessionID, v.UUID)
				continue
			}
			if ss.SessionUUID != v.UUID {
				r.v("C07", "orphaned-join", "%s was told it joined session %s with uuid %s, but the id resolves to uuid %s", c.Label, v.SessionID, v.UUID, ss.SessionUUID)
				r.v("C03", "live-session-cut-off", "%s is a member of session %s with uuid %s, but the id resolves to another session (%s)", c.Label, v.SessionID, v.UUID, ss.SessionUUID)
				continue
			}
			found := false
			for _, p := range ss.GetParticipants() {
				if p.ID == v.PID {
					found = true
				}
			}
			if !found {
				r.v("C07", "orphaned-join", "%s was told it is participant %d of session %s, but the session does not list it", c.Label, v.PID, v.SessionID)
			}
		}
	})
}

// runBigBlock: 5..16 simultaneous requests (C09). The permutation search is not tractable here;
// what is checked is what C09 states: every request completes (exactly one answer per request
// id), nothing deadlocks, nothing panics; afterwards every client closes and the server must
// come back to its initial state.
func (r *runner) runBigBlock(steps []Step) {
	r.markAll()
	type sent struct {
		c   *Client
		p   *Pending
		op  string
		fin bool
	}
	var all []sent
	seen := map[int]bool{}
	r.w.sim.BeginBlock()
	for i := range steps {
		st := &steps[i]
		if seen[st.Conn] {
			continue
		}
		c := r.client(st.Conn)
		if r.stop() {
			return
		}
		if r.m.conn(st.Conn).Gone || c.Ended() || c.sentFIN {
			continue
		}
		seen[st.Conn] = true
		r.res.Executed++
		if st.Op == "close" || st.Op == "rst" {
			if st.Op == "close" {
				c.CloseFIN()
			} else {
				c.Reset()
			}
			all = append(all, sent{c: c, op: st.Op, fin: true})
			continue
		}
		p := r.m.Build(st, st.Conn, c.NextReqID())
		if p.Req == nil {
			continue
		}
		c.Send(p.Req)
		if r.m.conn(st.Conn).Session == nil && st.Op != "join" && st.Op != "ping" {
			continue // outside a session the request may be answered, dropped, or end the connection
		}
		all = append(all, sent{c: c, p: p, op: st.Op})
	}
	r.res.Triggers["big_block"]++
	r.res.Triggers[fmt.Sprintf("big_block_size_%d", len(all))]++
	r.quiesce()
	r.res.Blocks[r.w.sim.EndBlock()] = true
	r.desync = true
	if r.w.sim.Failure != "" {
		return
	}
	for _, t := range r.w.sim.LiveTasks() {
		if t.State() == "lockwait" {
			r.v("C09", "deadlock", "after %d concurrent requests a task is still waiting for a lock: %s", len(all), strings.Join(r.w.sim.Describe(), "; "))
			return
		}
	}
	for _, s := range all {
		if s.fin || s.p.RID == 0 {
			continue
		}
		n := 0
		for _, m := range s.c.Since() {
			if m.ReqID == s.p.RID {
				n++
			}
		}
		if s.c.Ended() {
			continue
		}
		if n == 0 {
			r.v("C09", "request-unanswered", "%s by %s (request id %d), one of %d concurrent requests, was never answered: %s", s.op, s.c.Label, s.p.RID, len(all), strings.Join(r.w.sim.Describe(), "; "))
		} else if n > 1 {
			r.v("C09", "request-answered-twice", "%s by %s (request id %d) was answered %d times", s.op, s.c.Label, s.p.RID, n)
		}
	}
	r.checkBeliefs()
	r.inBlock = true
	r.checkViews()
	r.inBlock = false
}

func concProfile(name string, over map[string]int, f func(p *Profile)) *Profile {
	p := histProfile(name, over, nil)
	p.Policies = []string{"rand", "rand", "pct", "pct"}
	p.PBlock = 0.3
	p.PBurst = 0.02
	p.MinSteps, p.MaxSteps = 6, 40
	if f != nil {
		f(p)
	}
	return p
}

func init() {
	props["C07"] = histSpec("C07", concProfile("C07", map[string]int{"switch": 14, "entity_add": 4, "custom": 2, "pose": 1, "comp_add": 1, "action": 1, "asset_add": 1, "quad_sample": 0, "get_region": 0, "get_ground": 0, "debug_info": 0},
		func(p *Profile) {
			p.PClose = 0.12
			p.PProbe = 0.12
			p.BlockOps = []string{"joiner", "joiner", "close", "close", "switch", "switch", "newjoin"}
			p.MaxSessions = 3
			p.PEndgame = 0.3
			p.StallBoost = 0.5
		}), "distinct run digests in which a session ended (its last member left) after accepted joins", func(r *Result) bool { return trig(r, "departure", "block") })
	props["C10"] = &propSpec{ID: "C10", Rule: "distinct run digests with at least two id allocations (sessions, participants, entities, types, assets) or a generator micro-world with >= 2 tasks",
		NonTrivial: func(r *Result) bool { return trig(r) || r.Triggers["idgen_ops"] > 0 },
		Custom: func(t *testing.T, seed uint64, tier string) (*Scenario, *Result) {
			if seed%4 == 0 {
				return nil, runIDGenWorld(t, seed)
			}
			p := concProfile("C10", map[string]int{"entity_add": 16, "entity_delete": 8, "type_add": 10, "asset_add": 10, "switch": 8}, func(p *Profile) {
				p.PClose = 0.1
				p.BlockOps = []string{"entity_add", "entity_add", "type_add", "asset_add", "joiner", "newjoin", "close", "switch"}
				p.PEndgame = 0.3
				p.StallBoost = 0.5
			})
			sc := GenHistory(seed, p)
			sc.Prop = "C10"
			return sc, RunScenario(t, sc)
		}}
	props["C09"] = &propSpec{ID: "C09", Rule: "distinct run digests with a concurrent block of >= 2 requests on connections that share a session",
		NonTrivial: func(r *Result) bool { return r.Triggers["block"]+r.Triggers["big_block"] > 0 },
		Gen: func(seed uint64, tier string) *Scenario {
			p := concProfile("C09", nil, func(p *Profile) {
				p.AllModules = true
				p.MaxConns = 16
				p.MinMembers = 3
				p.PBlock = 0.35
				p.PFocus = 0.4
				p.PEndgame = 0.12
				p.BlockOps = []string{"entity_add", "entity_delete", "custom", "comp_add", "comp_delete", "comp_update", "pose", "type_add", "subscribe", "unsubscribe", "action", "asset_add", "joiner", "close", "switch", "quad_sample", "get_region", "comp_list"}
			})
			r := simrt.NewRand(seed, "c09")
			// the workers running the race-detector build spend most of their (much slower)
			// runs on the two families in which unsynchronised accesses meet
			pStorm, pDuel := 0.25, 0.25
			if os.Getenv("HSIM_MIX") == "race" {
				pStorm, pDuel = 0.45, 0.6
			}
			if r.Bool(0.12) {
				return groundDuel(seed, r, p)
			}
			if r.Bool(pStorm) {
				return componentStorm(seed, r, p)
			}
			if r.Bool(pDuel) {
				return duel(seed, r, p, "C09")
			}
			p.MinMembers = 2 + r.Intn(6)
			sc := GenHistory(seed, p)
			sc.Prop = "C09"
			// production decorators in two thirds of the runs; without them in the rest: their
			// fmt traffic (sync.Pool) orders almost everything in the eyes of the race detector
			sc.World.Decorators = c09Decorators(seed)
			// one big block at the end: every joined connection issues a request at once
			if r.Bool(0.6) {
				blk := 100000
				n := 5 + r.Intn(12)
				g := &genState{r: r, p: p, joined: map[int]string{}, dead: map[int]bool{}}
				for c := 0; c < n && c < p.MaxConns; c++ {
					op := p.BlockOps[r.Intn(len(p.BlockOps))]
					var st Step
					switch op {
					case "joiner", "switch":
						st = Step{Conn: c, Op: "join", Sess: "S0"}
					case "close":
						st = Step{Conn: c, Op: "close"}
					default:
						st = g.makeOp(c, op)
						st.NoPose = false
					}
					st.Block = blk
					st.Variant = "big"
					sc.Steps = append(sc.Steps, st)
				}
			}
			return sc
		}}
}

// runIDGenWorld: 2..8 tasks call New / Reuse on one generator under the simulated scheduler.
// Invariant: no id is outstanding twice.
func runIDGenWorld(t *testing.T, seed uint64) *Result {
	res := &Result{Triggers: map[string]int{}, States: map[string]bool{}, Blocks: map[string]bool{}, Stats: map[string]int{}}
	inBubble(t, res, func(t *testing.T) {
		r := simrt.NewRand(seed, "idgen")
		pol := []string{"rand", "pct", "seq"}[r.Intn(3)]
		s := simrt.New(simrt.Config{Seed: seed, Policy: pol, PCTDepth: 1 + r.Intn(3), PCTLen: 200})
		var g models.SequentialIDGenerator
		out := map[uint32]int{}
		n := 1 + r.Intn(8)
		var hist []string
		for k := 0; k < n; k++ {
			k := k
			tr := simrt.NewRand(seed, fmt.Sprintf("idgen-task-%d", k))
			ops := 2 + tr.Intn(10)
			simrt.Go(fmt.Sprintf("idgen%d", k), func() {
				var mine []uint32
				for i := 0; i < ops; i++ {
					if len(mine) > 0 && tr.Bool(0.45) {
						j := tr.Intn(len(mine))
						id := mine[j]
						mine = append(mine[:j], mine[j+1:]...)
						out[id]--
						hist = append(hist, fmt.Sprintf("t%d.Reuse(%d)", k, id))
						g.Reuse(id)
					} else {
						id := g.New()
						hist = append(hist, fmt.Sprintf("t%d.New()=%d", k, id))
						out[id]++
						if out[id] > 1 || id == 0 {
							res.Violations = append(res.Violations, Violation{Prop: "C10", Rule: "generator-duplicate", Detail: fmt.Sprintf("id %d is outstanding twice after %s", id, strings.Join(hist, " "))})
						}
						mine = append(mine, id)
					}
				}
			})
		}
		s.RunFor(time.Second)
		res.Triggers["idgen_ops"] = len(hist)
		res.Triggers["accepted"] = 1
		keys := []string{}
		for id, c := range out {
			if c > 0 {
				keys = append(keys, fmt.Sprint(id))
			}
		}
		sort.Strings(keys)
		res.States[strings.Join(keys, ",")] = true
		res.Digest = s.Digest()
		res.Steps = s.Steps
		res.SimTime = s.Now()
		res.Stats = mergeStats(res.Stats, s.Stats)
		res.Failure = s.Failure
		s.Close()
	})
	return res
}

// componentStorm: several members of one session update, list, add and delete the same few
// components while another connection joins (its snapshot lists them), with the immediate
// requests timed to arrive at a frame tick so that they overlap the flush of the updates.
// duel: a small session in which block after block of 2-4 simultaneous requests meets on one
// entity, one component key and one action name (the owner deletes, leaves or changes; the
// others attach, change, read, detach): the check-then-act windows of the handlers.
func duel(seed uint64, r *simrt.Rand, p *Profile, prop string) *Scenario {
	g := &genState{r: r, p: p, joined: map[int]string{}, dead: map[int]bool{}, sessN: 1}
	n := 2 + r.Intn(3)
	for c := 0; c < n; c++ {
		g.join(c, "S0")
	}
	g.nConns = n
	add := func(st Step) { g.steps = append(g.steps, st) }
	add(Step{Conn: 0, Op: "type_add", Name: "alpha"})
	add(Step{Conn: 1, Op: "type_add", Name: "beta"})
	for c := 0; c < n; c++ {
		for i := 0; i < 1+r.Intn(2); i++ {
			add(Step{Conn: c, Op: "entity_add", Seq: float32(c*4 + i + 1), Persist: r.Bool(0.2)})
		}
		// most members follow both types: a view can only diverge where it is kept
		if r.Bool(0.8) {
			add(Step{Conn: c, Op: "subscribe", Typ: Ref{K: "reg", I: 0}})
		}
		if r.Bool(0.6) {
			add(Step{Conn: c, Op: "subscribe", Typ: Ref{K: "reg", I: 1}})
		}
		if r.Bool(0.6) {
			// something to update, list and delete on its entity
			add(Step{Conn: r.Intn(n), Op: "comp_add", Typ: Ref{K: "reg", I: r.Intn(2)}, Ent: Ref{K: "of", I: c * 8}, Data: "init"})
		}
	}
	for round := 0; round < 2+r.Intn(4); round++ {
		lj := g.liveJoined()
		if len(lj) < 2 {
			break
		}
		if !g.focusBlock(lj, 2+r.Intn(3)) {
			break
		}
		if r.Bool(0.3) {
			c := lj[r.Intn(len(lj))]
			if !g.dead[c] && g.joined[c] != "" {
				add(g.makeOp(c, []string{"entity_add", "comp_add", "action", "comp_list"}[r.Intn(4)]))
			}
		}
	}
	sc := &Scenario{Prop: prop, Family: "history", Seed: seed, Steps: g.steps}
	sc.World = genWorld(seed, r, p)
	sc.World.Modules = []string{"vikja", "odal", "dagaz"}
	sc.World.Decorators = c09Decorators(seed)
	if sc.World.Policy == "seq" {
		sc.World.Policy = "rand"
	}
	sc.World.Net.Jitter = 0
	sc.World.UnlockYield = []float64{0.2, 0.5, 0.8}[r.Intn(3)]
	sc.World.FrameDuration = []time.Duration{time.Millisecond, 5 * time.Millisecond, 15 * time.Millisecond, 50 * time.Millisecond}[r.Intn(4)]
	return sc
}

// groundDuel: members of one session keep sampling the same patch of ground (appends first,
// then merges into the stored planes) while others cast rays at it and query the region.
func groundDuel(seed uint64, r *simrt.Rand, p *Profile) *Scenario {
	g := &genState{r: r, p: p, joined: map[int]string{}, dead: map[int]bool{}, sessN: 1}
	n := 2 + r.Intn(3)
	for c := 0; c < n; c++ {
		g.join(c, "S0")
	}
	g.nConns = n
	add := func(st Step) { g.steps = append(g.steps, st) }
	x, z := float32(r.Intn(5)-2), float32(r.Intn(5)-2)
	quad := func() QuadSpec {
		return QuadSpec{C: [3]float32{x + float32(r.Intn(3)-1)*0.25, 0, z + float32(r.Intn(3)-1)*0.25}, E: [3]float32{0.5 + float32(r.Intn(3))*0.25, 0, 0.5 + float32(r.Intn(3))*0.25}}
	}
	add(Step{Conn: 0, Op: "quad_sample", Quads: []QuadSpec{quad()}})
	for round := 0; round < 2+r.Intn(4); round++ {
		g.nextBlk++
		perm := r.Perm(n)
		for i, c := range perm {
			var st Step
			switch {
			case i == 0:
				st = Step{Conn: c, Op: "quad_sample", Quads: []QuadSpec{quad()}}
				if r.Bool(0.3) {
					st.Quads = append(st.Quads, quad())
				}
			case i == 1:
				st = Step{Conn: c, Op: "get_ground", F: []float32{x, 5, z, x, -5, z}}
			default:
				op := []string{"get_region", "quad_sample", "get_ground", "debug_info"}[r.Intn(4)]
				st = Step{Conn: c, Op: op, F: []float32{-10, 0, -10, 10, 0, 10}}
				if op == "quad_sample" {
					st.Quads = []QuadSpec{quad()}
					st.F = nil
				}
				if op == "get_ground" {
					st.F = []float32{x + 0.25, 5, z, x + 0.25, -5, z}
				}
			}
			st.Block = g.nextBlk
			add(st)
		}
	}
	sc := &Scenario{Prop: "C09", Family: "history", Seed: seed, Steps: g.steps}
	sc.World = genWorld(seed, r, p)
	sc.World.Modules = []string{"vikja", "odal", "dagaz"}
	sc.World.Decorators = c09Decorators(seed)
	if sc.World.Policy == "seq" {
		sc.World.Policy = "rand"
	}
	sc.World.Net.Jitter = 0
	sc.World.UnlockYield = []float64{0.2, 0.5, 0.8}[r.Intn(3)]
	return sc
}

func componentStorm(seed uint64, r *simrt.Rand, p *Profile) *Scenario {
	g := &genState{r: r, p: p, joined: map[int]string{}, dead: map[int]bool{}, sessN: 1}
	n := 3 + r.Intn(4)
	for c := 0; c < n; c++ {
		g.join(c, "S0")
	}
	g.nConns = n
	add := func(st Step) { g.steps = append(g.steps, st) }
	add(Step{Conn: 0, Op: "type_add", Name: "alpha"})
	add(Step{Conn: 1, Op: "type_add", Name: "beta"})
	for i := 0; i < 2+r.Intn(2); i++ {
		add(Step{Conn: i % n, Op: "entity_add", Seq: float32(i + 1)})
	}
	for i := 0; i < 2+r.Intn(3); i++ {
		add(Step{Conn: r.Intn(n), Op: "comp_add", Typ: Ref{K: "reg", I: i % 2}, Ent: Ref{K: "any", I: i}, Data: "init"})
	}
	for c := 0; c < n; c++ {
		if r.Bool(0.7) {
			add(Step{Conn: c, Op: "subscribe", Typ: Ref{K: "reg", I: r.Intn(2)}})
		}
	}
	for round := 0; round < 1+r.Intn(3); round++ {
		g.nextBlk++
		perm := r.Perm(n)
		for i, c := range perm {
			var st Step
			switch {
			case i < 2:
				st = Step{Conn: c, Op: "comp_update", Typ: Ref{K: "comp", I: r.Intn(3)}, Data: "storm"}
			case i == 2:
				st = Step{Conn: c, Op: "comp_list", Typ: Ref{K: "reg", I: r.Intn(2)}}
			default:
				op := []string{"comp_list", "comp_update", "comp_delete", "comp_add", "entity_delete", "close"}[r.Intn(6)]
				st = Step{Conn: c, Op: op, Typ: Ref{K: "comp", I: r.Intn(3)}, Ent: Ref{K: "any", I: r.Intn(3)}, Data: "x"}
				if op == "comp_list" {
					st.Typ = Ref{K: "reg", I: r.Intn(2)}
				}
			}
			st.Block = g.nextBlk
			add(st)
		}
		if r.Bool(0.7) {
			add(Step{Conn: n + round, Op: "join", Sess: "S0", Block: g.nextBlk})
		}
	}
	sc := &Scenario{Prop: "C09", Family: "history", Seed: seed, Steps: g.steps}
	sc.World = genWorld(seed, r, p)
	sc.World.Modules = []string{"vikja", "odal", "dagaz"}
	sc.World.Decorators = c09Decorators(seed)
	if sc.World.Policy == "seq" {
		sc.World.Policy = "rand"
	}
	sc.World.Net.Jitter = 0
	sc.World.UnlockYield = []float64{0.2, 0.5, 0.8}[r.Intn(3)]
	sc.World.FrameDuration = []time.Duration{time.Millisecond, 5 * time.Millisecond, 15 * time.Millisecond}[r.Intn(3)]
	return sc
}

// c09Decorators: the production decorators are on in two thirds of the C09 runs (one third of
// the runs of the race-detector workers): their fmt traffic goes through sync.Pool, which orders
// almost every pair of accesses in the eyes of the race detector.
func c09Decorators(seed uint64) bool {
	if os.Getenv("HSIM_MIX") == "race" {
		return seed%3 == 1
	}
	return seed%3 != 0
}
