package hsim

import (
	"sort"
	"time"

	"hagallsim/simrt"
)

var allFlags = []string{
	"DISABLE_SESSION_STATE", "DISABLE_PARTICIPANT_JOIN_BROADCAST", "DISABLE_PARTICIPANT_LEAVE_BROADCAST",
	"DISABLE_ENTITY_ADD_BROADCAST", "DISABLE_ENTITY_DELETE_BROADCAST", "DISABLE_ENTITY_UPDATE_POSE_BROADCAST",
	"DISABLE_CUSTOM_MESSAGE_BROADCAST", "DISABLE_ENTITY_COMPONENT_ADD_BROADCAST", "DISABLE_ENTITY_COMPONENT_UPDATE_BROADCAST",
	"DISABLE_ENTITY_COMPONENT_DELETE_BROADCAST",
}

var unknownFlags = []string{"DISABLE_EVERYTHING", "disable_session_state", "DISABLE_ENTITY_ADD", "", "DISABLE_VIKJA_STATE"}

// flagSet number k: the first 12 are the empty set, all ten, and the ten singletons; after that
// k's low ten bits select the subset (thorough runs walk through all 1024).
func flagSet(k int, r *simrt.Rand) []string {
	var f []string
	switch {
	case k == 0:
	case k == 1:
		f = append(f, allFlags...)
	case k < 12:
		f = []string{allFlags[k-2]}
	default:
		bits := (k * 2654435761) >> 3 & 1023
		for i, n := range allFlags {
			if bits&(1<<i) != 0 {
				f = append(f, n)
			}
		}
	}
	if r.Bool(0.25) {
		f = append(f, unknownFlags[r.Intn(len(unknownFlags))])
	}
	sort.Strings(f)
	return f
}

func init() {
	props["C17"] = &propSpec{ID: "C17",
		Rule:       "distinct run digests of histories with at least one accepted relayed change, executed under a flag set and again without flags",
		NonTrivial: func(r *Result) bool { return trig(r) && r.Triggers["diff_runs"] > 0 },
		Gen: func(seed uint64, tier string) *Scenario {
			p := histProfile("C17", map[string]int{"switch": 3}, func(p *Profile) {
				p.PBurst, p.PBlock = 0, 0
				p.Policies = []string{"seq"}
				p.MinMembers = 2
				p.MaxSteps = 50
				p.PClose = 0.06
			})
			sc := GenHistory(seed, p)
			sc.Prop = "C17"
			r := simrt.NewRand(seed, "flags")
			sc.World.Flags = flagSet(int(seed%1024), r)
			sc.World.SortedMaps = true
			sc.World.StallProb = 0
			sc.Diff = "flags"
			return sc
		}}
	props["C03"] = &propSpec{ID: "C03",
		Rule:       "distinct run digests of histories over >= 2 sessions in which steps outside the observed session were removed for the second execution",
		NonTrivial: func(r *Result) bool { return trig(r) && r.Triggers["diff_removed_steps"]+r.Triggers["block"] > 0 },
		Gen: func(seed uint64, tier string) *Scenario {
			p := histProfile("C03", map[string]int{"switch": 8}, func(p *Profile) {
				p.PBurst, p.PBlock = 0, 0
				p.Policies = []string{"seq"}
				p.MaxSessions = 3
				p.MaxConns = 6
				p.MaxSteps = 60
				p.PClose = 0.06
				p.PProbe = 0.08
				p.AllModules = true
			})
			if seed%12 == 7 {
				// relays of one session held up by a reader that stopped while a member switches
				// to another session: from its join answer on it sees nothing of the old one
				sc := genOffender(seed, tier, "stall")
				sc.Prop = "C03"
				return sc
			}
			if seed%3 == 2 {
				// a third of the runs (short ones): session ends, creations and joins overlapping at lock
				// granularity (a reused id must never cut a live session off); no second execution
				p.Policies = []string{"rand", "pct"}
				p.PBlock = 0.35
				p.PClose = 0.12
				p.BlockOps = []string{"close", "close", "newjoin", "newjoin", "joiner", "switch"}
				p.PEndgame = 0.5
				p.MinSteps, p.MaxSteps = 6, 28
				sc := GenHistory(seed, p)
				sc.Prop = "C03"
				if seed%5 != 0 {
					// slow tasks: a departure held up between leaving the session and tearing it
					// down, while a creation or a join by id runs to completion
					sc.World.StallProb = 0.01
					sc.World.StallMax = 5 * time.Millisecond
				}
				return sc
			}
			sc := GenHistory(seed, p)
			sc.Prop = "C03"
			// make sure there are at least two sessions
			sc.Steps = append([]Step{{Conn: 0, Op: "join", Sess: "S0"}, {Conn: 1, Op: "join", Sess: "S1"}}, sc.Steps...)
			sc.World.SortedMaps = true
			sc.World.StallProb = 0
			sc.Diff = "isolation"
			return sc
		}}
}
