package hsim

import (
	"time"

	"hagallsim/simrt"
)

func histProfile(name string, over map[string]int, f func(p *Profile)) *Profile {
	p := &Profile{Name: name, MinSteps: 8, MaxSteps: 70, MaxConns: 6, MaxSessions: 3, W: weights(over),
		PBurst: 0.05, PBlock: 0, PNoPose: 0.03, PClose: 0.04, PProbe: 0.06, PDie: 0.3,
		BlockOps: []string{"entity_add", "entity_delete", "custom", "comp_add", "comp_update", "pose", "type_add", "subscribe", "action", "asset_add", "joiner", "close", "switch"}}
	if f != nil {
		f(p)
	}
	return p
}

func histSpec(id string, prof *Profile, rule string, nt func(res *Result) bool) *propSpec {
	return &propSpec{ID: id, Rule: rule, NonTrivial: nt,
		Gen: func(seed uint64, tier string) *Scenario {
			if (id == "C02" || id == "C04") && seed%12 == 5 || id == "C11" && seed%10 == 3 {
				// backpressure: a member stops reading while relays and its own answers pile up
				// (socket window, then the send queue of 512, then the broadcasters), then
				// resumes: everything must arrive exactly once, in order
				sc := genOffender(seed, tier, "stall")
				sc.Prop = id
				return sc
			}
			if (id == "C06" || id == "C12" || id == "C01") && seed%5 == 1 {
				// block after block of simultaneous requests on one entity / component / action
				return duel(seed, simrt.NewRand(seed, "duel"), prof, id)
			}
			if (id == "C14" || id == "C05") && seed%25 == 4 {
				return longLived(seed, prof, id)
			}
			if (id == "C01" || id == "C16") && seed%10 == 7 {
				return takeover(seed, prof, id)
			}
			if id == "C13" && seed%10 < 3 {
				return subChurn(seed, prof)
			}
			p := *prof
			if tier == "thorough" {
				p.MaxSteps = prof.MaxSteps * 2
			}
			sc := GenHistory(seed, &p)
			sc.Prop = id
			for _, st := range sc.Steps {
				if st.Op == "idle_out" {
					// long enough that nobody else idles out in the course of the scenario, frames
					// long enough that two simulated minutes of ticks stay cheap
					sc.World.IdleTimeout = 2 * time.Minute
					if sc.World.FrameDuration < 50*time.Millisecond {
						sc.World.FrameDuration = 50 * time.Millisecond
					}
					if sc.World.SyncClock < time.Second {
						sc.World.SyncClock = time.Second
					}
				}
			}
			return sc
		}}
}

func trig(res *Result, keys ...string) bool {
	if res.Triggers["offence:stall"] > 0 {
		return true
	}
	if res.Triggers["accepted"] == 0 {
		return false
	}
	for _, k := range keys {
		if res.Triggers[k] > 0 {
			return true
		}
	}
	return len(keys) == 0
}

func init() {
	props["C14"] = histSpec("C14", histProfile("C14", map[string]int{"custom": 40}, func(p *Profile) {
		p.MinMembers = 3
		// (targeted messages of several senders at the same instant: outside the statement's
		// quantifier, cheap to include)
		p.PBlock = 0.05
		p.BlockOps = []string{"custom", "custom", "custom", "comp_update", "joiner", "close"}
	}),
		"distinct run digests in which at least one custom message was accepted", func(r *Result) bool { return trig(r, "op:custom") })
	props["C01"] = histSpec("C01", histProfile("C01", nil, func(p *Profile) { p.PBlock = 0.08; p.PFocus = 0.4; p.PProbe = 0.1; p.PEndgame = 0.1 }),
		"distinct run digests with an accepted state change and at least one probe/late joiner", func(r *Result) bool { return trig(r, "op:join") })
	props["C02"] = histSpec("C02", histProfile("C02", nil, func(p *Profile) {
		p.MinMembers = 3
		p.PBlock = 0.1
		p.PFocus = 0.3
		p.PEndgame = 0.3
		p.StallBoost = 0.3
	}),
		"distinct run digests with at least one accepted relayed change in a session of >= 2", func(r *Result) bool { return trig(r) })
	props["C04"] = histSpec("C04", histProfile("C04", nil, func(p *Profile) { p.PBurst = 0.1 }),
		"distinct run digests with at least one accepted and one refused request", func(r *Result) bool { return trig(r) })
	props["C05"] = histSpec("C05", histProfile("C05", map[string]int{"entity_delete": 14, "pose": 14, "asset_add": 12, "entity_add": 14}, func(p *Profile) {
		p.MinMembers = 2
		p.PClose = 0.07
		p.PBlock = 0.04
		p.PFocus = 0.3
		p.BlockOps = []string{"joiner", "joiner", "entity_add", "entity_delete", "pose"}
	}),
		"distinct run digests with an ownership decision (delete/pose/asset on an entity)", func(r *Result) bool { return trig(r, "op:entity_delete", "op:pose", "op:asset_add") })
	props["C06"] = histSpec("C06", histProfile("C06", map[string]int{"switch": 6, "entity_add": 16, "comp_add": 10, "action": 8, "asset_add": 8, "subscribe": 8, "unsubscribe": 6, "type_add": 5}, func(p *Profile) {
		p.MinMembers = 2
		p.PClose = 0.1
		p.PProbe = 0.1
		p.PDie = 0.5
		p.PBlock = 0.06 // a departure overlapping a join or another member's change
		p.PFocus = 0.3
		p.PEndgame = 0.15
		p.PIdleOut = 0.12
		p.BlockOps = []string{"close", "close", "switch", "joiner", "joiner", "entity_add", "comp_add", "action"}
	}),
		"distinct run digests with a departure of a member that owned entities", func(r *Result) bool { return trig(r, "departure", "server_ended") })
	props["C12"] = histSpec("C12", histProfile("C12", map[string]int{"type_add": 10, "comp_add": 16, "comp_delete": 9, "comp_update": 10, "comp_list": 8, "entity_delete": 8, "type_get_name": 3, "type_get_id": 3}, func(p *Profile) {
		p.PClose = 0.06
		p.PBlock = 0.06
		p.PFocus = 0.4
		p.BlockOps = []string{"type_add", "type_add", "comp_add", "comp_delete", "entity_delete"}
	}),
		"distinct run digests with an accepted component operation", func(r *Result) bool { return trig(r, "op:comp_add") })
	props["C13"] = histSpec("C13", histProfile("C13", map[string]int{"type_add": 8, "comp_add": 14, "comp_delete": 8, "comp_update": 14, "subscribe": 12, "unsubscribe": 8}, func(p *Profile) {
		p.MinMembers = 3
		p.PClose = 0.05
		// an unsubscribe (or a departure) arriving while a notification is on its way
		p.PBlock = 0.08
		p.PFocus = 0.3
		p.BlockOps = []string{"unsubscribe", "unsubscribe", "comp_update", "comp_update", "comp_update", "subscribe", "comp_add", "comp_delete", "close"}
	}),
		"distinct run digests with a subscription and a component change", func(r *Result) bool { return trig(r, "op:subscribe") && trig(r, "op:comp_add", "op:comp_update") })
	props["C16"] = histSpec("C16", histProfile("C16", map[string]int{"action": 22, "asset_add": 16, "entity_add": 12, "entity_delete": 8}, func(p *Profile) {
		p.AllModules = true
		p.MinMembers = 2
		p.PProbe = 0.1
		p.PClose = 0.06
		// (actions and assets meeting deletions and departures in the same instant: outside
		// the statement's quantifier, cheap to include)
		p.PBlock = 0.05
		p.PFocus = 0.7
		p.BlockOps = []string{"action", "action", "asset_add", "entity_delete", "close", "joiner"}
	}),
		"distinct run digests with an accepted action or asset", func(r *Result) bool { return trig(r, "op:action", "op:asset_add") })
	props["C11"] = histSpec("C11", histProfile("C11", map[string]int{"pose": 30, "entity_add": 12, "entity_delete": 6, "switch": 4}, func(p *Profile) {
		p.MinMembers = 2
		p.PBurst = 0.2
		p.PProbe = 0.08
		p.NoJitter = 0.6
		// joins, switches, departures and deletions arriving at the very instant pending
		// updates are flushed by the frame tick
		p.PBlock = 0.15
		p.MinUnlockYield = 0.5
		p.BlockOps = []string{"pose", "pose", "pose", "joiner", "joiner", "joiner", "switch", "close", "entity_delete", "entity_add"}
		p.ProbeAfterBlock = 0.6
	}),
		"distinct run digests with an accepted pose update", func(r *Result) bool { return trig(r, "op:pose", "deferred_burst") })
}
