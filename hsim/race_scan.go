package hsim

import (
	"fmt"
	"os"
	"regexp"
	"strings"
)

// Race reports of a -race build of the engine (C09 b). The baton hand-offs are hidden from the
// race detector (simrt), so what it reports are the program's own unsynchronised accesses on
// the explored schedule. Only reports whose two accesses are both in hagall code count;
// everything involving the harness, the simulator or pooled library memory is noise by
// construction (the scheduler goroutine is deliberately not ordered with the tasks).

var raceOffset int64

var raceHead = regexp.MustCompile(`(?m)^(?:Read|Write|Previous read|Previous write|Atomic read|Atomic write|Previous atomic read|Previous atomic write) at [^\n]*\n((?:\s+\S+\(\)\n\s+\S+ \+0x[0-9a-f]+\n)+)`)
var raceFrame = regexp.MustCompile(`(?m)^\s+(\S+)\(\)\n`)

// firstOwnFrame: the first frame of an access that is not the Go runtime (map and slice
// primitives report themselves as the top frame).
func firstOwnFrame(frames string) string {
	for _, m := range raceFrame.FindAllStringSubmatch(frames, -1) {
		if !strings.HasPrefix(m[1], "runtime.") {
			return m[1]
		}
	}
	return ""
}

// harnessStack: the access was made by the scheduler goroutine (the harness reading or setting
// up server state through the repository's own functions), not by a task.
func harnessStack(frames string) bool {
	for _, m := range []string{"hagallsim/hsim.(*runner)", "hagallsim/hsim.NewWorld", "hagallsim/hsim.RunScenario", "hagallsim/hsim.runCustom", "hagallsim/hsim.runC", "hagallsim/hsim.inBubble", "hagallsim/hsim.(*Client)"} {
		if strings.Contains(frames, m) {
			return true
		}
	}
	return false
}

func raceLogPath() string {
	for _, f := range strings.Fields(os.Getenv("GORACE")) {
		if strings.HasPrefix(f, "log_path=") {
			return fmt.Sprintf("%s.%d", strings.TrimPrefix(f, "log_path="), os.Getpid())
		}
	}
	return ""
}

func isHagall(fn string) bool {
	return strings.HasPrefix(fn, "github.com/aukilabs/hagall/") || strings.HasPrefix(fn, "github.com/aukilabs/hagall-common/websocket.")
}

// scanRaces returns the new hagall-only race reports since the last call.
func scanRaces() []Violation {
	p := raceLogPath()
	if p == "" {
		return nil
	}
	f, err := os.Open(p)
	if err != nil {
		return nil
	}
	defer f.Close()
	st, _ := f.Stat()
	if st.Size() <= raceOffset {
		return nil
	}
	buf := make([]byte, st.Size()-raceOffset)
	f.ReadAt(buf, raceOffset)
	raceOffset = st.Size()
	var out []Violation
	seen := map[string]bool{}
	for _, b := range strings.Split(string(buf), "==================") {
		if !strings.Contains(b, "DATA RACE") {
			continue
		}
		acc := raceHead.FindAllStringSubmatch(b, -1)
		if len(acc) < 2 {
			continue
		}
		f0, f1 := firstOwnFrame(acc[0][1]), firstOwnFrame(acc[1][1])
		if !isHagall(f0) || !isHagall(f1) || harnessStack(acc[0][1]) || harnessStack(acc[1][1]) {
			continue
		}
		short := func(s string) string { return strings.TrimPrefix(s, "github.com/aukilabs/") }
		a, c := short(f0), short(f1)
		if a > c {
			a, c = c, a
		}
		key := a + " <-> " + c
		if seen[key] {
			continue
		}
		seen[key] = true
		out = append(out, Violation{Prop: "C09", Rule: "data-race", Detail: "unsynchronised accesses (race detector on this simulated schedule): " + key})
	}
	return out
}
