package hsim

import (
	"fmt"

	"github.com/aukilabs/hagall-common/messages/hagallpb"
	"google.golang.org/protobuf/proto"
	"sort"
	"strings"
	"testing"
	"testing/synctest"
	"time"

	"github.com/aukilabs/hagall/modules/odal"
	"github.com/aukilabs/hagall/modules/vikja"
)

// Scenario is the unit of execution, replay and shrinking: pure data.
type Scenario struct {
	Prop   string   `json:"prop"`
	Family string   `json:"family"`
	Seed   uint64   `json:"seed"`
	World  WorldCfg `json:"world"`
	Steps  []Step   `json:"steps"`
	// Opts
	NoFinalClose bool   `json:"no_final_close,omitempty"`
	NoOracles    bool   `json:"no_oracles,omitempty"` // twin executions only collect streams
	Diff         string `json:"diff,omitempty"`       // flags | isolation: differential re-execution
	PureSide     int    `json:"pure_side,omitempty"`  // C20: number of seeded vectors for the non-simulated primitive clause
}

type Result struct {
	Violations []Violation              `json:"violations,omitempty"`
	Digest     string                   `json:"digest"`
	Stats      map[string]int           `json:"stats"`
	Steps      uint64                   `json:"sched_steps"`
	SimTime    time.Duration            `json:"sim_time"`
	Triggers   map[string]int           `json:"triggers"`
	States     map[string]bool          `json:"-"`
	Blocks     map[string]bool          `json:"-"`
	Failure    string                   `json:"failure,omitempty"`
	Trace      []string                 `json:"-"`
	Skipped    int                      `json:"skipped_steps"`
	Executed   int                      `json:"executed_steps"`
	Panics     []string                 `json:"panics,omitempty"`
	Streams    map[string][]*streamItem `json:"-"` // per connection normalised stream (differential checks)
	Sent       map[int][]byte           `json:"-"` // request payloads actually sent, by step index
	RIDs       map[int]uint32           `json:"-"`
	InS0       map[int]bool             `json:"-"` // steps that touch the observed session S0
	FinalState string                   `json:"-"`
}

type runner struct {
	sc         *Scenario
	w          *World
	m          *Model
	clients    map[int]*Client
	res        *Result
	stepIdx    int
	dis        map[int32]bool
	lastOut    *Outcome
	inappAt    map[int]int // per client: inapplicable broadcasts already reported
	strict     bool
	inBlock    bool
	gridSeen   map[string]int
	desync     bool            // the model can no longer follow the server (non-serializable block)
	departStep int             // index of the last step in which a member left its session (close, reset, protocol error, switch)
	doubleKeys map[string]bool // component keys that two requests of a block both added successfully
}

func (r *runner) violate(v Violation) {
	v.Step = r.stepIdx
	r.res.Violations = append(r.res.Violations, v)
}

func (r *runner) v(prop, rule, format string, a ...any) {
	r.violate(Violation{Prop: prop, Rule: rule, Detail: fmt.Sprintf(format, a...)})
}

func (r *runner) stop() bool {
	if r.sc.NoOracles {
		r.res.Violations = nil
		return r.w.sim.Failure != ""
	}
	return len(r.res.Violations) > 0 || r.w.sim.Failure != ""
}
func (r *runner) failed() bool { return r.stop() || r.desync }

// RunScenario executes one scenario inside its own synctest bubble.
func RunScenario(t *testing.T, sc *Scenario) *Result {
	res := &Result{Stats: map[string]int{}, Triggers: map[string]int{}, States: map[string]bool{}, Blocks: map[string]bool{}, Streams: map[string][]*streamItem{}, Sent: map[int][]byte{}, InS0: map[int]bool{}, RIDs: map[int]uint32{}}
	inBubble(t, res, func(t *testing.T) {
		w := NewWorld(sc.World)
		r := &runner{sc: sc, w: w, m: newModelFor(sc.World), clients: map[int]*Client{}, res: res, dis: disabledTypes(sc.World.Flags), inappAt: map[int]int{}}
		r.run()
		res.Digest = w.sim.Digest()
		res.Stats = mergeStats(res.Stats, w.sim.Stats)
		res.Steps = w.sim.Steps
		res.SimTime = w.sim.Now()
		res.Failure = w.sim.Failure
		res.Trace = w.sim.Trace()
		for _, p := range w.sim.Panics {
			res.Panics = append(res.Panics, fmt.Sprintf("task %s [%s]: %v", p.Name, p.Label, p.Panic))
		}
		for _, c := range w.Clients {
			res.Streams[c.Label] = c.Stream
		}
		w.Close()
	})
	if sc.PureSide > 0 {
		v, n := primitiveOracle(sc.Seed, sc.PureSide)
		res.Triggers["pure_clause_evaluations"] += n
		for _, x := range v {
			x.Step = len(sc.Steps)
			res.Violations = append(res.Violations, x)
		}
	}
	if sc.Diff != "" && res.Failure == "" {
		if len(res.Violations) == 0 {
			runDiff(t, sc, res)
		} else {
			// the first execution stopped at a violation: compare the prefix up to there
			cut := 0
			for _, v := range res.Violations {
				if v.Step+1 > cut {
					cut = v.Step + 1
				}
			}
			if cut > len(sc.Steps) {
				cut = len(sc.Steps)
			}
			pre := *sc
			pre.Steps = sc.Steps[:cut]
			pre.NoFinalClose = true
			runDiff(t, &pre, res)
		}
	}
	return res
}

// runCustom executes a special world: body drives the runner instead of a step list. Replay is
// by seed (the generator is a pure function of it).
func runCustom(t *testing.T, sc *Scenario, body func(r *runner)) *Result {
	res := &Result{Stats: map[string]int{}, Triggers: map[string]int{}, States: map[string]bool{}, Blocks: map[string]bool{}, Streams: map[string][]*streamItem{}, Sent: map[int][]byte{}, InS0: map[int]bool{}, RIDs: map[int]uint32{}}
	inBubble(t, res, func(t *testing.T) {
		w := NewWorld(sc.World)
		r := &runner{sc: sc, w: w, m: newModelFor(sc.World), clients: map[int]*Client{}, res: res, dis: disabledTypes(sc.World.Flags), inappAt: map[int]int{}}
		body(r)
		r.stepIdx = 1 << 20
		r.finish()
		res.Digest = w.sim.Digest()
		res.Stats = mergeStats(res.Stats, w.sim.Stats)
		res.Steps = w.sim.Steps
		res.SimTime = w.sim.Now()
		res.Failure = w.sim.Failure
		res.Trace = w.sim.Trace()
		w.Close()
	})
	return res
}

// inBubble runs f as the root of a synctest bubble, on a goroutine of its own: when the race
// detector has reported something during the bubble, testing makes the goroutine that called
// synctest.Test exit (as if FailNow had been called), which must not end the worker's loop. The
// end-of-bubble deadlock panic (a goroutine that could not be killed) is recovered here.
func inBubble(t *testing.T, res *Result, f func(t *testing.T)) {
	done := make(chan struct{})
	var pv any
	go func() {
		defer close(done)
		defer func() {
			if p := recover(); p != nil {
				s := fmt.Sprint(p)
				if strings.Contains(s, "deadlock") || strings.Contains(s, "blocked goroutines") {
					res.Stats["bubble_leak"]++
					return
				}
				pv = p
			}
		}()
		synctest.Test(t, f)
	}()
	<-done
	if pv != nil {
		panic(pv)
	}
}

func mergeStats(a, b map[string]int) map[string]int {
	if a == nil {
		a = map[string]int{}
	}
	for k, v := range b {
		a[k] += v
	}
	return a
}

func (r *runner) run() {
	steps := r.sc.Steps
	if r.sc.World.Skew != "" {
		r.w.sim.Stats["fault.client_clock_skew"]++
	}
	if r.sc.World.StmtYield > 0 {
		r.w.sim.Stats["probe.statement_level_points_enabled"]++
	}
	for i := 0; i < len(steps) && !r.failed(); {
		r.stepIdx = i
		st := &steps[i]
		if st.Block > 0 {
			j := i
			for j < len(steps) && steps[j].Block == st.Block {
				j++
			}
			if steps[i].Variant == "big" || j-i > 5 {
				r.runBigBlock(steps[i:j])
			} else {
				r.runBlock(steps[i:j])
			}
			i = j
			continue
		}
		if st.Pipe {
			j := i
			for j < len(steps) && steps[j].Pipe && steps[j].Conn == st.Conn && steps[j].Block == 0 {
				j++
			}
			if j < len(steps) && steps[j].Conn == st.Conn && steps[j].Block == 0 && (isRequestOp(steps[j].Op) || steps[j].Op == "close") {
				j++ // the burst ends with the first non-pipelined step of that connection (a request, a switch or a close)
			}
			r.runBurst(steps[i:j])
			i = j
			continue
		}
		r.runSeq(st)
		i++
	}
	r.stepIdx = len(steps)
	r.finish()
}

func isRequestOp(op string) bool {
	switch op {
	case "close", "rst", "stall", "resume", "wait", "connect", "raw", "silence", "ws_ping", "midframe_close", "offence", "die", "idle_out":
		return false
	}
	return true
}

func isDeferredOp(op string) bool { return op == "pose" || op == "comp_update" }

// client returns the connection of index i, opening it on first use.
func (r *runner) client(i int) *Client {
	if c, ok := r.clients[i]; ok {
		return c
	}
	c := r.w.Connect(ConnectOpts{Label: fmt.Sprintf("c%d", i), ClientID: fmt.Sprintf("client-%d", i)})
	c.ridBase = i + 1
	r.clients[i] = c
	r.quiesce()
	if c.Status != 101 {
		r.v("C15", "rejected-valid-token", "connection %s with a valid token got HTTP status %d", c.Label, c.Status)
	}
	return c
}

func (r *runner) sortedClients() []int {
	var ids []int
	for i := range r.clients {
		ids = append(ids, i)
	}
	sort.Ints(ids)
	return ids
}

func (r *runner) markAll() {
	for _, c := range r.clients {
		c.Mark()
	}
}

// netIdle: nothing in flight and nothing stalled.
func (r *runner) netIdle() bool {
	s := r.w.sim
	return s.PendingEvents("net") == 0 && s.PendingEvents("stall") == 0 && s.PendingEvents("sleep") == 0
}

// quiesce runs until no bytes are in flight, every task is idle and at least two full frames
// have elapsed without any traffic other than sync-clock messages.
func (r *runner) quiesce() {
	s := r.w.sim
	frame := r.w.cfg.FrameDuration
	deadline := s.Now() + 30*time.Second + 100*frame
	for iter := 0; iter < 200 && s.Failure == ""; iter++ {
		for guard := 0; guard < 100000 && s.Failure == ""; guard++ {
			s.Settle()
			if r.netIdle() {
				break
			}
			at, ok := s.NextEventAt()
			if !ok {
				break
			}
			s.RunUntil(at)
		}
		mark := r.w.lastActivity
		s.RunFor(2*frame + time.Millisecond)
		if r.w.lastActivity == mark && r.netIdle() {
			return
		}
		if s.Now() > deadline {
			r.res.Stats["quiesce_deadline"]++
			return
		}
	}
}

// ---------------------------------------------------------------------------------------------
// sequential steps

func (r *runner) runSeq(st *Step) {
	switch st.Op {
	case "connect":
		r.client(st.Conn)
		return
	case "wait":
		r.w.sim.RunFor(st.Dur)
		r.quiesce()
		return
	case "offence":
		r.offence(st)
		return
	}
	c := r.client(st.Conn)
	if r.failed() {
		return
	}
	mc := r.m.conn(st.Conn)
	if mc.Gone || c.Ended() || c.sentFIN {
		r.res.Skipped++
		return
	}
	r.res.Executed++
	if st.Op == "join" && r.m.Tainted[st.Conn] {
		r.taintedJoin(st, c)
		return
	}
	switch st.Op {
	case "close", "rst":
		r.departStep = r.stepIdx
		r.noteS0(st)
		r.markAll()
		hadEntities := mc.Session != nil
		if st.Op == "close" {
			c.CloseFIN()
		} else {
			c.Reset()
		}
		r.quiesce()
		out := r.m.Depart(st.Conn)
		if hadEntities {
			r.res.Triggers["departure"]++
		}
		r.compare(st, c, out)
		r.checkEnded(c, "client "+st.Op)
		r.checkState(out)
		return
	}
	if st.Op == "idle_out" {
		r.idleOut(st, c)
		return
	}
	if st.Op == "die" {
		r.die(st, c)
		return
	}
	if !isRequestOp(st.Op) {
		r.control(st, c)
		return
	}
	r.markAll()
	if st.Op == "rawreq" {
		c.SendPayload(st.Raw)
		r.quiesce()
		if c.Ended() && !r.m.conn(st.Conn).Gone {
			r.m.Depart(st.Conn)
		}
		return
	}
	p := r.m.Build(st, st.Conn, c.NextReqID())
	if p.Req == nil {
		r.res.Skipped++
		return
	}
	if b, err := proto.Marshal(p.Req); err == nil {
		r.res.Sent[r.stepIdx] = b
	}
	r.res.RIDs[r.stepIdx] = p.RID
	r.noteS0(st)
	c.Send(p.Req)
	r.quiesce()
	got := c.NonClock(c.Since())
	out := p.Finish(r.m, got)
	r.afterRequest(st, c, out)
}

// noteS0 records whether a step belongs to the history of the observed session S0: a step of
// a connection that is in S0, or a join that enters S0.
func (r *runner) noteS0(st *Step) {
	mc := r.m.conn(st.Conn)
	in := mc.Session != nil && r.w.symOf[mc.Session.UUID] == "S0"
	if st.Op == "join" && st.Sess == "S0" {
		in = true
	}
	r.res.InS0[r.stepIdx] = in
}

// afterJoinTags records which symbolic session a uuid stands for (stream tags of the
// differential checks).
func (r *runner) afterJoinTags(st *Step, c *Client) {
	mc := r.m.conn(st.Conn)
	if mc.Session == nil {
		return
	}
	sym := st.Sess
	if old, ok := r.w.symOf[mc.Session.UUID]; ok {
		sym = old
	}
	r.w.symOf[mc.Session.UUID] = sym
	for i := len(c.Stream) - 1; i >= 0; i-- {
		if c.Stream[i].Type == 4 {
			for _, it := range c.Stream[i:] {
				if it.Sym == "" {
					it.Sym = sym
				}
			}
			break
		}
	}
}

func (r *runner) afterRequest(st *Step, c *Client, out *Outcome) {
	if st.Op == "join" && out.Accepted {
		r.afterJoinTags(st, c)
	}
	for _, v := range out.Viol {
		r.violate(v)
	}
	r.res.Triggers["op:"+out.Kind]++
	if out.Accepted {
		r.res.Triggers["accepted"]++
	}
	// did the server end the connection?
	if c.Ended() {
		if !out.MayEnd && !out.MustEnd {
			r.v("C04", "answer-wrong-outcome", "%s: the server ended connection %s on a request that has a defined answer (%s)", out.Kind, c.Label, c.DisconnectErr)
			r.v("C08", "active-disconnected", "%s: the server ended connection %s (%s)", out.Kind, c.Label, c.DisconnectErr)
		}
		dep := r.m.Depart(st.Conn)
		for ci, e := range dep.Others {
			out.Others = mergeOthers(out.Others, ci, e)
		}
		r.res.Triggers["server_ended"]++
	} else if out.MustEnd {
		r.v("C08", "handler-not-returned", "%s: connection %s should have been ended", out.Kind, c.Label)
	}
	r.compare(st, c, out)
	if c.Ended() {
		r.checkEnded(c, out.Kind)
	}
	r.checkState(out)
	if r.sc.Family == "grid" {
		r.checkGridAnswer(st, c, c.NonClock(c.Since()))
		r.checkGrid(st, c)
	}
}

func mergeOthers(m map[int][]Exp, ci int, e []Exp) map[int][]Exp {
	if m == nil {
		m = map[int][]Exp{}
	}
	m[ci] = append(m[ci], e...)
	return m
}

// compare checks what every connection received since the last mark against the outcome.
func (r *runner) compare(st *Step, req *Client, out *Outcome) {
	r.lastOut = out
	for _, ci := range r.sortedClients() {
		c := r.clients[ci]
		actual := c.NonClock(c.Since())
		var exp []Exp
		if c == req {
			exp = out.Req
		} else {
			exp = out.Others[ci]
		}
		exp = filterExp(exp, r.dis)
		if out.StateOnly && c == req {
			continue
		}
		if c.reset || (c != req && c.Ended()) {
			continue // nothing can be said about a connection that is gone
		}
		mm := matchStream(actual, exp)
		if mm == nil {
			continue
		}
		if c == req {
			r.attributeAnswer(out, c, mm)
		} else {
			r.attributeRelay(out, c, mm)
		}
	}
}

var answerRule = map[string]string{"missing": "answer-missing", "duplicate": "answer-duplicate", "extra": "answer-duplicate", "wrong": "answer-wrong-outcome"}

func (r *runner) attributeAnswer(out *Outcome, c *Client, mm *mismatch) {
	d := fmt.Sprintf("%s at requester %s: %s", out.Kind, c.Label, mm.Detail)
	base := strings.SplitN(out.Kind, "/", 2)[0]
	r.v("C04", answerRule[mm.Kind], "%s", d)
	if mm.Kind == "missing" && !c.Ended() {
		r.v("C08", "handler-not-returned", "%s is neither answered nor disconnected: %s (%s)", c.Label, d, strings.Join(r.w.sim.Describe(), "; "))
	}
	for _, p := range out.Props {
		switch p {
		case "C12":
			rule := map[string]string{"comp_add": "add-outcome", "comp_delete": "delete-outcome", "comp_list": "list-mismatch", "type_add": "type-registry", "type_get_name": "type-registry", "type_get_id": "type-registry", "entity_delete": "cascade-missing"}[base]
			if rule != "" && base != "entity_delete" {
				r.v("C12", rule, "%s", d)
			}
		case "C05":
			if base == "entity_delete" || base == "asset_add" {
				r.v("C05", "non-owner-succeeded", "%s", d)
			}
		case "C14":
			r.v("C14", "limit-boundary", "%s", d)
		case "C16":
			rule := "action-answer"
			if out.Kind == "action/older" {
				rule = "older-action-accepted"
			} else if base == "asset_add" {
				rule = "asset-answer"
			} else if out.Accepted {
				rule = "newer-action-refused"
			}
			r.v("C16", rule, "%s", d)
		case "C13":
			if base == "subscribe" {
				r.v("C13", "subscribe-unregistered-accepted", "%s", d)
			}
		case "C07":
			r.v("C07", "join-answer", "%s", d)
			if mm.Kind == "wrong" && strings.Contains(mm.Detail, "SessionState") && strings.Contains(mm.Detail, "pose:{") {
				// what a newcomer is handed includes the latest pose of every entity
				r.v("C11", "pose-probe-stale", "%s", d)
			}
		case "C01":
			r.v("C01", "probe-mismatch", "%s", d)
		case "C20":
			r.v("C20", "query-answer", "%s", d)
		case "C03":
			r.v("C03", "foreign-effect", "%s", d)
		}
	}
	if r.w.cfg.Policy != "seq" || r.w.cfg.StallProb > 0 {
		if mm.Kind == "missing" {
			r.v("C09", "request-unanswered", "%s", d)
		}
	}
}

func (r *runner) attributeRelay(out *Outcome, c *Client, mm *mismatch) {
	d := fmt.Sprintf("%s observed at %s: %s", out.Kind, c.Label, mm.Detail)
	base := strings.SplitN(out.Kind, "/", 2)[0]
	rule := map[string]string{"missing": "relay-missing", "duplicate": "relay-duplicate", "extra": "relay-extra", "wrong": "relay-wrong"}[mm.Kind]
	if !out.Accepted && (mm.Kind == "extra" || mm.Kind == "duplicate") {
		rule = "relay-of-refused"
	}
	r.v("C02", rule, "%s", d)
	if !out.Accepted && base != "depart" && base != "burst" && base != "block" {
		r.v("C04", "refused-changed-state", "a refused request had a visible effect: %s", d)
	}
	switch base {
	case "custom":
		r.v("C14", map[string]string{"missing": "recipient-missing", "duplicate": "recipient-duplicate", "extra": "recipient-extra", "wrong": "body-altered"}[mm.Kind], "%s", d)
	case "comp_add", "comp_delete", "comp_update":
		r.v("C13", map[string]string{"missing": "notify-missing", "duplicate": "notify-duplicate", "extra": "notify-unsubscribed", "wrong": "notify-wrong"}[mm.Kind], "%s", d)
		if out.Kind == "comp_update/missing" {
			r.v("C12", "update-of-missing-relayed", "%s", d)
		}
	case "pose":
		r.v("C11", map[string]string{"missing": "pose-last-not-relayed", "duplicate": "pose-repeated", "extra": "invalid-update-had-effect", "wrong": "pose-wrong"}[mm.Kind], "%s", d)
		if !out.Accepted {
			r.v("C05", "refused-had-effect", "%s", d)
		}
	case "depart":
		r.v("C06", map[string]string{"missing": "leave-relay-count", "duplicate": "leave-relay-count", "extra": "delete-relay-count", "wrong": "delete-relay-count"}[mm.Kind], "%s", d)
	case "join":
		r.v("C06", "leave-relay-count", "%s", d) // a switch is a departure too
		r.v("C01", "inapplicable-broadcast", "%s", d)
	case "action", "asset_add":
		r.v("C16", "relay-mismatch", "%s", d)
		if !out.Accepted {
			r.v("C05", "refused-had-effect", "%s", d)
		}
	case "entity_delete":
		if !out.Accepted {
			r.v("C05", "refused-had-effect", "%s", d)
		}
	}
	if strings.HasSuffix(out.Kind, "/unjoined") {
		r.v("C03", "foreign-effect", "%s", d)
		r.v("C04", "unjoined-executed", "%s", d)
	}
}

// checkEnded: a connection the server (or the client) ended must have gone through the normal
// path exactly once.
func (r *runner) checkEnded(c *Client, why string) {
	if !c.HandleReturned && c.InnerEntered > 0 {
		r.v("C08", "handler-not-returned", "after %s: websocket.Handle of %s has not returned (%s)", why, c.Label, strings.Join(r.w.sim.Describe(), "; "))
		return
	}
	if c.InnerEntered > 0 && c.Disconnects != 1 {
		r.v("C08", "disconnect-count", "after %s: HandleDisconnect of %s ran %d times", why, c.Label, c.Disconnects)
		r.v("C06", "disconnect-count", "after %s: HandleDisconnect of %s ran %d times", why, c.Label, c.Disconnects)
	}
}

// ---------------------------------------------------------------------------------------------
// state checks at quiescence

func (r *runner) serverCheck(kind string) bool {
	ctx := func(cat string) (string, string) {
		// which property besides C01 a server-state difference speaks to
		switch kind {
		case "depart", "join":
			return "C06", map[string]string{"entities": "entity-survived", "components": "attachment-survived", "actions": "attachment-survived", "assets": "attachment-survived", "participants": "ghost-participant"}[cat]
		case "comp_add", "comp_delete", "comp_update", "type_add", "type_get_name", "type_get_id", "comp_list", "subscribe", "unsubscribe":
			return "C12", "store-state"
		case "action", "asset_add":
			return "C16", "action-state-mismatch"
		case "pose":
			return "C11", "pose-probe-stale"
		case "entity_delete":
			return "C12", "cascade-missing"
		}
		return "", ""
	}
	// 1. server state through the repository's own accessors, against the model
	var diffs []string
	ok := r.w.sim.Inspect(func() {
		for _, id := range sortedSessionIDs(r.m.Live) {
			ms := r.m.Live[id]
			ss, found := r.w.Sessions.GetByGlobalID(id)
			if !found {
				r.v("C07", "registry-missing", "session %s (%s) has %d members but does not resolve", id, ms.UUID, len(ms.Members))
				continue
			}
			if ss.SessionUUID != ms.UUID {
				r.v("C07", "registry-stale", "id %s resolves to uuid %s, the members were given %s", id, ss.SessionUUID, ms.UUID)
				continue
			}
			// participants
			got := map[uint32]bool{}
			for _, p := range ss.GetParticipants() {
				got[p.ID] = true
			}
			want := map[uint32]bool{}
			for p := range ms.Members {
				want[p] = true
			}
			if fmt.Sprint(sortedU32(got)) != fmt.Sprint(sortedU32(want)) {
				diffs = append(diffs, fmt.Sprintf("participants|session %s: server has participants %v, expected %v", id, sortedU32(got), sortedU32(want)))
			}
			// entities
			ge := map[uint32]string{}
			for _, e := range ss.Entities() {
				ge[e.ID] = fmt.Sprintf("owner=%d persist=%v flag=%d pose=%v", e.ParticipantID, e.Persist, e.Flag, poseArr(e.Pose().PX, e.Pose().PY, e.Pose().PZ, e.Pose().RX, e.Pose().RY, e.Pose().RZ, e.Pose().RW))
			}
			we := map[uint32]string{}
			for eid, e := range ms.Entities {
				we[eid] = fmt.Sprintf("owner=%d persist=%v flag=%d pose=%v", e.Owner, e.Persist, e.Flag, e.Pose)
			}
			if d := diffMaps(ge, we); d != "" {
				diffs = append(diffs, fmt.Sprintf("entities|session %s entities: %s", id, d))
			}
			gc := map[CKey]string{}
			for _, c := range ss.GetEntityComponents().ListAll() {
				gc[CKey{c.GetEntityComponentTypeId(), c.GetEntityId()}] = string(c.GetData())
			}
			if d := diffMaps(gc, ms.Components); d != "" {
				diffs = append(diffs, fmt.Sprintf("components|session %s components: %s", id, d))
			}
			if r.m.Modules["vikja"] {
				ga := map[string]VAction{}
				if st, ok := ss.ModuleState("vikja"); ok {
					for _, a := range st.(*vikja.State).EntityActions() {
						ga[fmt.Sprintf("%d/%s", a.GetEntityId(), a.GetName())] = vaction(a)
					}
				}
				wa := map[string]VAction{}
				for e, as := range ms.Actions {
					for n, a := range as {
						wa[fmt.Sprintf("%d/%s", e, n)] = a
					}
				}
				if d := diffMaps(ga, wa); d != "" {
					diffs = append(diffs, fmt.Sprintf("actions|session %s actions: %s", id, d))
				}
			}
			if r.m.Modules["odal"] {
				ga := map[uint32]VAsset{}
				if st, ok := ss.ModuleState("odal"); ok {
					for _, a := range st.(*odal.State).AssetInstances() {
						ga[a.GetEntityId()] = vasset(a)
					}
				}
				if d := diffMaps(ga, ms.Assets); d != "" {
					diffs = append(diffs, fmt.Sprintf("assets|session %s assets: %s", id, d))
				}
			}
		}
	})
	if !ok {
		r.v("C09", "deadlock", "server state cannot be read at quiescence: a lock is held by a blocked task (%s)", strings.Join(r.w.sim.Describe(), "; "))
		return false
	}
	for _, d := range diffs {
		parts := strings.SplitN(d, "|", 2)
		r.v("C01", "server-state-"+parts[0], "%s", parts[1])
		if p, rule := ctx(parts[0]); p != "" && rule != "" {
			r.v(p, rule, "%s", parts[1])
		}
		if parts[0] == "participants" {
			r.v("C08", "ghost-participant", "%s", parts[1])
		}
		if r.lastOut != nil && !r.lastOut.Accepted && kind != "depart" && kind != "" && kind != "block" && kind != "burst" {
			r.v("C04", "refused-changed-state", "after a refused %s: %s", r.lastOut.Kind, parts[1])
			if kind == "entity_delete" || kind == "pose" || kind == "asset_add" {
				r.v("C05", "refused-had-effect", "after a refused %s: %s", r.lastOut.Kind, parts[1])
			}
		}
	}
	return true
}

func (r *runner) checkServerOnly() { r.serverCheck("") }

func (r *runner) drainLedger() {
	for _, v := range r.w.ledger.viol {
		r.violate(v)
	}
	r.w.ledger.viol = nil
}

func (r *runner) checkState(out *Outcome) {
	r.drainLedger()
	if r.stop() {
		return
	}
	kind := ""
	if out != nil {
		kind = strings.SplitN(out.Kind, "/", 2)[0]
	}
	if !r.desync && !r.serverCheck(kind) {
		return
	}
	r.checkInvariants()
	if r.desync {
		// only what does not need the model: registry beliefs, views against the server's own state
		r.checkBeliefs()
		r.checkViews()
		return
	}
	// 2. registry, gauges, frame workers
	g := readGauges()
	if d := int(g.Sessions - r.w.gauge0.Sessions); d != len(r.m.Live) {
		r.v("C07", "gauge-mismatch", "session_count changed by %d, %d sessions are live", d, len(r.m.Live))
	}
	if r.w.cfg.Decorators {
		live := 0
		for _, c := range r.clients {
			if c.InnerEntered > 0 && c.Disconnects == 0 {
				live++
			}
		}
		if d := int(g.Connected - r.w.gauge0.Connected); d != live {
			r.v("C08", "gauge-not-restored", "ws_connected_clients changed by %d, %d connections are open", d, live)
		}
	}
	workers := 0
	for _, t := range r.w.sim.LiveTasks() {
		if strings.HasSuffix(t.Name, "StartDispatchFrames") {
			workers++
		}
	}
	if workers != len(r.m.Live) {
		r.v("C07", "frame-worker-leak", "%d frame workers are running, %d sessions are live", workers, len(r.m.Live))
	}
	r.checkBeliefs()
	// 3. replicated views
	if len(r.dis) == 0 {
		r.checkViews()
	}
	// abstract state signature (evidence: distinct states reached)
	r.res.States[r.stateSig()] = true
}

func poseArr(a ...float32) Pose { var p Pose; copy(p[:], a); return p }

func diffMaps[K comparable, V comparable](got, want map[K]V) string {
	d, _ := diffMapsK(got, want)
	return d
}

// diffMapsK also returns the keys that differ (formatted with %v, sorted).
func diffMapsK[K comparable, V comparable](got, want map[K]V) (string, []string) {
	var out, keys []string
	for k, v := range want {
		g, ok := got[k]
		if !ok {
			out = append(out, fmt.Sprintf("missing %v=%v", k, v))
			keys = append(keys, fmt.Sprint(k))
		} else if g != v {
			out = append(out, fmt.Sprintf("%v is %v, expected %v", k, g, v))
			keys = append(keys, fmt.Sprint(k))
		}
	}
	for k, v := range got {
		if _, ok := want[k]; !ok {
			out = append(out, fmt.Sprintf("unexpected %v=%v", k, v))
			keys = append(keys, fmt.Sprint(k))
		}
	}
	sort.Strings(keys)
	d := joinDiff(out)
	return d, keys
}

func joinDiff(out []string) string {
	sort.Strings(out)
	if len(out) > 6 {
		out = append(out[:6], fmt.Sprintf("... %d more", len(out)-6))
	}
	return strings.Join(out, "; ")
}

// vk records a violation together with the state entries it is about.
func (r *runner) vk(keys []string, prefix, prop, rule, format string, a ...any) {
	ks := make([]string, len(keys))
	for i, k := range keys {
		ks[i] = prefix + k
	}
	r.violate(Violation{Prop: prop, Rule: rule, Detail: fmt.Sprintf(format, a...), Keys: ks})
}

// serverSnapshot reads every live session through the repository's accessors.
func (r *runner) serverSnapshot() map[string]*MSession { return r.serverSnapshotOpt(false) }

func (r *runner) serverSnapshotOpt(keepDangling bool) map[string]*MSession {
	snap := map[string]*MSession{}
	ids := map[string]bool{}
	for id := range r.m.Live {
		ids[id] = true
	}
	for _, c := range r.clients {
		if c.View.Joined {
			ids[c.View.SessionID] = true
		}
	}
	var idl []string
	for id := range ids {
		idl = append(idl, id)
	}
	sort.Strings(idl)
	r.w.sim.Inspect(func() {
		for _, id := range idl {
			ss, found := r.w.Sessions.GetByGlobalID(id)
			if !found {
				continue
			}
			t := newMSession(id, ss.SessionUUID)
			for _, p := range ss.GetParticipants() {
				t.Members[p.ID] = -1
			}
			for _, e := range ss.Entities() {
				po := e.Pose()
				t.Entities[e.ID] = &MEntity{ID: e.ID, Owner: e.ParticipantID, Persist: e.Persist, Flag: int32(e.Flag), Pose: poseArr(po.PX, po.PY, po.PZ, po.RX, po.RY, po.RZ, po.RW)}
			}
			for _, c := range ss.GetEntityComponents().ListAll() {
				t.Components[CKey{c.GetEntityComponentTypeId(), c.GetEntityId()}] = string(c.GetData())
			}
			if st, ok := ss.ModuleState("vikja"); ok {
				for _, a := range st.(*vikja.State).EntityActions() {
					if t.Actions[a.GetEntityId()] == nil {
						t.Actions[a.GetEntityId()] = map[string]VAction{}
					}
					t.Actions[a.GetEntityId()][a.GetName()] = vaction(a)
				}
			}
			if st, ok := ss.ModuleState("odal"); ok {
				for _, a := range st.(*odal.State).AssetInstances() {
					t.Assets[a.GetEntityId()] = vasset(a)
				}
			}
			if keepDangling {
				snap[ss.SessionUUID] = t
				continue
			}
			// attachments of entities that do not exist mean nothing to a client
			for k := range t.Components {
				if t.Entities[k.Entity] == nil {
					delete(t.Components, k)
				}
			}
			for e := range t.Actions {
				if t.Entities[e] == nil {
					delete(t.Actions, e)
				}
			}
			for e := range t.Assets {
				if t.Entities[e] == nil {
					delete(t.Assets, e)
				}
			}
			snap[ss.SessionUUID] = t
		}
	})
	return snap
}

// checkInvariants: what must hold of the server's own state at every quiescent point whatever
// the order in which concurrent requests were applied (no model involved): every component,
// action and asset instance belongs to an entity of its session, and every entity that is not
// persistent is owned by a member.
func (r *runner) checkInvariants() {
	snap := r.serverSnapshotOpt(true)
	// subscriptions belong to members (read through the store's own Notify)
	type strayT struct {
		sid      string
		typ, pid uint32
	}
	var stray []strayT
	r.w.sim.Inspect(func() {
		var ids []string
		for _, s := range snap {
			ids = append(ids, s.ID)
		}
		sort.Strings(ids)
		for _, id := range ids {
			ss, ok := r.w.Sessions.GetByGlobalID(id)
			if !ok {
				continue
			}
			members := map[uint32]bool{}
			for _, p := range ss.GetParticipants() {
				members[p.ID] = true
			}
			for t := uint32(1); t <= 6; t++ {
				ss.GetEntityComponents().Notify(t, func(pids []uint32) {
					sort.Slice(pids, func(i, j int) bool { return pids[i] < pids[j] })
					for _, pid := range pids {
						if !members[pid] {
							stray = append(stray, strayT{id, t, pid})
						}
					}
				})
			}
		}
	})
	for _, x := range stray {
		d := fmt.Sprintf("session %s: participant %d is still subscribed to component type %d although it is not a member", x.sid, x.pid, x.typ)
		r.v("C06", "subscription-survived", "%s", d)
		r.v("C09", "state-invariant", "%s", d)
		r.v("C13", "notify-unsubscribed", "%s", d)
	}
	var uu []string
	for u := range snap {
		uu = append(uu, u)
	}
	sort.Strings(uu)
	for _, u := range uu {
		s := snap[u]
		for _, k := range sortedCKeys(s.Components) {
			if s.Entities[k.Entity] == nil {
				d := fmt.Sprintf("session %s keeps component (type %d, entity %d) although entity %d does not exist", s.ID, k.Type, k.Entity, k.Entity)
				r.v("C09", "state-invariant", "%s", d)
				r.v("C12", "cascade-missing", "%s", d)
				if r.departStep == r.stepIdx {
					r.v("C06", "attachment-survived", "(a member left in this step) %s", d)
				}
			}
		}
		var ae []uint32
		for e := range s.Actions {
			ae = append(ae, e)
		}
		sort.Slice(ae, func(i, j int) bool { return ae[i] < ae[j] })
		for _, e := range ae {
			if s.Entities[e] == nil {
				d := fmt.Sprintf("session %s keeps %d action(s) of entity %d, which does not exist", s.ID, len(s.Actions[e]), e)
				r.v("C09", "state-invariant", "%s", d)
				r.v("C16", "attached-to-missing-entity", "%s", d)
				if r.departStep == r.stepIdx {
					r.v("C06", "attachment-survived", "(a member left in this step) %s", d)
				}
			}
		}
		ae = ae[:0]
		for e := range s.Assets {
			ae = append(ae, e)
		}
		sort.Slice(ae, func(i, j int) bool { return ae[i] < ae[j] })
		for _, e := range ae {
			if s.Entities[e] == nil {
				d := fmt.Sprintf("session %s keeps asset instance %d of entity %d, which does not exist", s.ID, s.Assets[e].ID, e)
				r.v("C09", "state-invariant", "%s", d)
				r.v("C16", "attached-to-missing-entity", "%s", d)
			}
		}
		for _, id := range sortedKeysE(s.Entities) {
			e := s.Entities[id]
			if _, member := s.Members[e.Owner]; !member && !e.Persist {
				d := fmt.Sprintf("session %s keeps non-persistent entity %d of participant %d, who is not a member", s.ID, id, e.Owner)
				r.v("C09", "state-invariant", "%s", d)
				r.v("C06", "entity-survived", "%s", d)
			}
		}
	}
}

func (r *runner) checkViews() {
	snap := r.serverSnapshot()
	for _, ci := range r.sortedClients() {
		c := r.clients[ci]
		mc := r.m.conn(ci)
		v := c.View
		// broadcasts that could not be applied
		for _, ia := range v.Inapplicable[r.inappAt[ci]:] {
			stale := false
			if ia.Type != 0 && mc.Session != nil && mc.Session.Stale[mc.PID][ia.Type] {
				stale = true
			}
			// the statement makes this claim for sequential histories only
			if !stale && !r.inBlock {
				r.v("C01", "inapplicable-broadcast", "%s received a broadcast it cannot apply: %s (%s)", c.Label, ia.Kind, ia.Detail)
			}
		}
		r.inappAt[ci] = len(v.Inapplicable)
		if c.Ended() || c.sentFIN || !v.Joined {
			continue
		}
		ms := mc.Session
		modelFollows := !r.desync && ms != nil && !mc.Gone
		if !r.desync && (mc.Gone || ms == nil) {
			continue
		}
		if r.desync && (ms == nil || ms.UUID != v.UUID) {
			ms = newMSession(v.SessionID, v.UUID) // the model does not follow: no subscription knowledge
		}
		s := snap[v.UUID] // the server's own state is the truth a view is compared with
		if s == nil {
			if r.desync {
				continue // checkBeliefs reports sessions that do not resolve
			}
			s = ms
		}
		if modelFollows && v.UUID != ms.UUID {
			r.v("C01", "view-session", "%s believes it is in session %q (%s), the model says %s", c.Label, v.SessionID, v.UUID, ms.UUID)
			continue
		}
		wp := map[uint32]bool{}
		for p := range s.Members {
			wp[p] = true
		}
		if fmt.Sprint(sortedU32(v.Participants)) != fmt.Sprint(sortedU32(wp)) {
			var ks []string
			for p := range v.Participants {
				if !wp[p] {
					ks = append(ks, fmt.Sprint(p))
				}
			}
			for p := range wp {
				if !v.Participants[p] {
					ks = append(ks, fmt.Sprint(p))
				}
			}
			sort.Strings(ks)
			r.vk(ks, "pid:", "C01", "view-participants", "%s sees participants %v, the session has %v", c.Label, sortedU32(v.Participants), sortedU32(wp))
		}
		ge, we := map[uint32]VEntity{}, map[uint32]VEntity{}
		for id, e := range v.Entities {
			ge[id] = *e
		}
		for id, e := range s.Entities {
			we[id] = VEntity{Owner: e.Owner, Flag: e.Flag, Pose: e.Pose}
		}
		if d, ks := diffMapsK(ge, we); d != "" {
			rule := "view-entities"
			if strings.Contains(d, " is {") {
				rule = "view-pose"
			}
			r.vk(ks, "ent:", "C01", rule, "%s's view of the entities: %s", c.Label, d)
			if r.lastOut != nil && strings.HasPrefix(r.lastOut.Kind, "pose") {
				r.v("C11", "pose-last-not-relayed", "%s's view of the entities: %s", c.Label, d)
			}
		}
		// components: for every type the participant subscribes to (and whose view C13 did not
		// force to be incomplete)
		for typ, subs := range ms.Subs {
			if !subs[mc.PID] || ms.Stale[mc.PID][typ] {
				continue
			}
			gc, wc := map[CKey]string{}, map[CKey]string{}
			for k, d := range v.Components {
				// (attachments of entities the client knows to be gone mean nothing to it: a list
				// answer may still name them)
				if k.Type == typ && !v.Uncertain[k] && v.Entities[k.Entity] != nil {
					gc[k] = d
				}
			}
			for k, d := range s.Components {
				if k.Type == typ && !v.Uncertain[k] {
					wc[k] = d
				}
			}
			if d, ks := diffMapsK(gc, wc); d != "" {
				r.vk(ks, "comp:", "C01", "view-components", "%s's view of type %d: %s", c.Label, typ, d)
				r.vk(ks, "comp:", "C13", "notify-missing", "%s's view of type %d: %s", c.Label, typ, d)
			}
		}
		if r.m.Modules["vikja"] && v.GotVikja {
			ga, wa := map[string]VAction{}, map[string]VAction{}
			for e, as := range v.Actions {
				if v.Entities[e] == nil {
					continue
				}
				for n, a := range as {
					ga[fmt.Sprintf("%d/%s", e, n)] = a
				}
			}
			for e, as := range s.Actions {
				for n, a := range as {
					wa[fmt.Sprintf("%d/%s", e, n)] = a
				}
			}
			if d, ks := diffMapsK(ga, wa); d != "" {
				r.vk(ks, "action:", "C01", "view-actions", "%s's view of the entity actions: %s", c.Label, d)
				r.vk(ks, "action:", "C16", "joiner-state-mismatch", "%s's view of the entity actions: %s", c.Label, d)
			}
		}
		if r.m.Modules["odal"] && v.GotOdal {
			gas := map[uint32]VAsset{}
			for e, a := range v.Assets {
				if v.Entities[e] != nil {
					gas[e] = a
				}
			}
			if d, ks := diffMapsK(gas, s.Assets); d != "" {
				r.vk(ks, "asset:", "C01", "view-assets", "%s's view of the asset instances: %s", c.Label, d)
				r.vk(ks, "asset:", "C16", "joiner-state-mismatch", "%s's view of the asset instances: %s", c.Label, d)
			}
		}
	}
}

func (r *runner) stateSig() string {
	var b strings.Builder
	for _, id := range sortedSessionIDs(r.m.Live) {
		s := r.m.Live[id]
		fmt.Fprintf(&b, "S[m%d e%d c%d t%d a%d s%d", len(s.Members), len(s.Entities), len(s.Components), len(s.TypeByName), len(s.Actions), len(s.Assets))
		n := 0
		for _, x := range s.Subs {
			n += len(x)
		}
		p := 0
		for _, e := range s.Entities {
			if e.Persist {
				p++
			}
		}
		fmt.Fprintf(&b, " sub%d p%d]", n, p)
	}
	return b.String()
}

// ---------------------------------------------------------------------------------------------
// end of run: every client closes; the server must come back to its initial state.

func (r *runner) finish() {
	if r.w.sim.Failure != "" {
		return
	}
	r.res.FinalState = r.finalState()
	if !r.stop() && !r.sc.NoFinalClose {
		for _, ci := range r.sortedClients() {
			c := r.clients[ci]
			if c.Ended() || c.sentFIN {
				continue
			}
			c.Resume()
			c.CloseFIN()
			r.quiesce()
			if !r.m.conn(ci).Gone {
				r.m.Depart(ci)
			}
		}
		r.quiesce()
		r.lifecycle()
	}
	// panics are violations whatever else happened
	for _, c := range r.clients {
		if c.ServePanic != "" {
			r.v("C08", "panic", "the connection goroutine of %s panicked: %s", c.Label, firstLine(c.ServePanic))
		}
	}
	for _, t := range r.w.sim.Panics {
		r.v("C08", "process-death", "goroutine %s panicked (the process would die): %v", t.Name, t.Panic)
	}
}

func firstLine(s string) string {
	if i := strings.IndexByte(s, '\n'); i >= 0 {
		return s[:i]
	}
	return s
}

func (r *runner) lifecycle() {
	for _, ci := range r.sortedClients() {
		c := r.clients[ci]
		if c.InnerEntered > 0 && !c.HandleReturned && c.ServePanic == "" {
			r.v("C08", "handler-not-returned", "after every client closed, websocket.Handle of %s has not returned: %s", c.Label, strings.Join(r.w.sim.Describe(), "; "))
			r.v("C09", "deadlock", "after every client closed, websocket.Handle of %s has not returned: %s", c.Label, strings.Join(r.w.sim.Describe(), "; "))
			return
		}
		if c.InnerEntered > 0 && c.Disconnects != 1 && c.ServePanic == "" {
			r.v("C08", "disconnect-count", "HandleDisconnect of %s ran %d times", c.Label, c.Disconnects)
		}
	}
	var leaked []string
	for _, t := range r.w.sim.LiveTasks() {
		if strings.HasPrefix(t.Name, "receipt/") {
			continue
		}
		leaked = append(leaked, fmt.Sprintf("%s[%s] %s at %s", t.Name, t.Label, t.State(), t.Site))
	}
	if len(leaked) > 0 {
		r.v("C08", "task-leak", "goroutines still alive after every client closed: %s", strings.Join(leaked, "; "))
		for _, l := range leaked {
			if strings.Contains(l, "StartDispatchFrames") {
				r.v("C07", "frame-worker-leak", "frame worker alive after its session ended: %s", l)
			}
		}
	}
	g := readGauges()
	if g.Sessions != r.w.gauge0.Sessions {
		r.v("C07", "gauge-mismatch", "session_count is off by %v after every session ended", g.Sessions-r.w.gauge0.Sessions)
	}
	if r.w.cfg.Decorators && g.Connected != r.w.gauge0.Connected {
		r.v("C08", "gauge-not-restored", "ws_connected_clients is off by %v after every client closed", g.Connected-r.w.gauge0.Connected)
	}
}

// finalState is a canonical rendering of the server's sessions before the final close (ids and
// uuids left out).
func (r *runner) finalState() string {
	var parts []string
	snap := r.serverSnapshotOpt(true)
	for _, s := range snap {
		var b strings.Builder
		var ps []uint32
		for p := range s.Members {
			ps = append(ps, p)
		}
		sort.Slice(ps, func(i, j int) bool { return ps[i] < ps[j] })
		fmt.Fprintf(&b, "P%v E[", ps)
		for _, id := range sortedKeysE(s.Entities) {
			e := s.Entities[id]
			fmt.Fprintf(&b, "%d:%d:%v:%d:%v ", id, e.Owner, e.Persist, e.Flag, e.Pose)
		}
		fmt.Fprintf(&b, "] C[")
		for _, k := range sortedCKeys(s.Components) {
			fmt.Fprintf(&b, "%v=%s ", k, s.Components[k])
		}
		fmt.Fprintf(&b, "] A%d S%d", len(s.Actions), len(s.Assets))
		parts = append(parts, b.String())
	}
	sort.Strings(parts)
	return strings.Join(parts, " | ")
}

// die: the connection commits a protocol error (or sends a close frame). If the server ends it,
// the departure must look exactly like any other (C06: "for any reason"); if it does not, the
// connection must still be served.
func (r *runner) die(st *Step, c *Client) {
	r.noteS0(st)
	r.markAll()
	mc := r.m.conn(st.Conn)
	joined := mc.Session != nil
	ts := fixedTS
	join := mustMarshal(&hagallpb.ParticipantJoinRequest{Type: hagallpb.MsgType_MSG_TYPE_PARTICIPANT_JOIN_REQUEST, Timestamp: ts, RequestId: 5})
	switch st.Variant {
	case "unmasked":
		c.SendRaw(encodeFrame(opBin, true, join, nil, -1))
	case "text":
		c.SendRaw(encodeFrame(opText, true, join, c.maskKey(), -1))
	case "no_timestamp":
		c.SendPayload(mustMarshal(&hagallpb.Request{Type: hagallpb.MsgType_MSG_TYPE_PING_REQUEST, RequestId: 5}))
	case "bad_body":
		c.SendPayload(append(mustMarshal(&hagallpb.Msg{Type: hagallpb.MsgType_MSG_TYPE_PARTICIPANT_JOIN_REQUEST, Timestamp: ts}), 0x1a, 0x02, 0xff, 0xfe))
	case "empty_receipt":
		c.SendPayload(mustMarshal(&hagallpb.ReceiptRequest{Type: hagallpb.MsgType_MSG_TYPE_RECEIPT_REQUEST, Timestamp: ts}))
	case "not_protobuf":
		c.SendPayload([]byte{0xff, 0xff, 0xff, 0xff, 0x0f})
	default: // close_frame
		c.SendRaw(encodeFrame(opClose, true, []byte{3, 232}, c.maskKey(), -1))
	}
	r.w.sim.Stats["fault.protocol_error_"+st.Variant]++
	r.quiesce()
	if !c.Ended() {
		if !r.responsive(c) && !c.Ended() {
			r.v("C08", "handler-not-returned", "after %s the connection %s is neither ended nor served", st.Variant, c.Label)
		}
		r.res.Triggers["die_survived:"+st.Variant]++
		if !c.Ended() {
			return
		}
	}
	out := r.m.Depart(st.Conn)
	out.Kind = "depart"
	if joined {
		r.res.Triggers["departure"]++
		r.res.Triggers["departure_by_protocol_error"]++
	}
	// what the offender itself was sent before the end (an error answer, a close frame) is not
	// constrained by C06
	out.StateOnly = true
	r.compare(st, c, out)
	r.checkEnded(c, "protocol error "+st.Variant)
	r.checkState(out)
}

func newModelFor(w WorldCfg) *Model {
	m := NewModel(w.Modules)
	m.Skew, m.SkewBase = w.Skew, w.SkewBase
	return m
}

// taintedJoin: a join by a connection that earlier sent a pose or component update while in no
// session. The join request makes the server handle that held-back update first: it is refused
// and becomes a disconnect cause while the join is already queued, so the join may or may not
// be carried out before the connection is ended. What must hold: the connection is ended through
// the normal path, it is nobody's fellow member afterwards, and the server state equals the
// model without it. Streams of this step are not compared (others may or may not have seen it
// come and go).
func (r *runner) taintedJoin(st *Step, c *Client) {
	r.noteS0(st)
	r.markAll()
	p := r.m.Build(st, st.Conn, c.NextReqID())
	if b, err := proto.Marshal(p.Req); err == nil {
		r.res.Sent[r.stepIdx] = b
	}
	c.Send(p.Req)
	r.quiesce()
	r.res.Stats["probe.join_after_update_sent_outside_a_session"]++
	if !c.Ended() {
		r.v("C08", "handler-not-returned", "%s sent an update while in no session and then a join: the update must be refused and the connection ended, but it is still open", c.Label)
		r.v("C04", "unjoined-executed", "%s sent an update while in no session and then a join: the connection is still open", c.Label)
		return
	}
	out := r.m.Depart(st.Conn)
	r.res.Triggers["server_ended"]++
	r.checkEnded(c, "join after an update sent outside a session")
	r.checkState(out)
}

// idleOut: the connection stays silent for longer than the idle timeout while every other
// client keeps sending (a ping request every third of the timeout): the server must disconnect
// the silent one, and only it, and its departure must look like any other (C06, C08).
func (r *runner) idleOut(st *Step, c *Client) {
	idle := r.w.cfg.IdleTimeout
	if idle > 10*time.Minute {
		r.res.Skipped++
		return
	}
	r.noteS0(st)
	r.markAll()
	r.departStep = r.stepIdx
	mc := r.m.conn(st.Conn)
	joined := mc.Session != nil
	for round := 0; round < 5 && !c.Ended(); round++ {
		r.w.sim.RunFor(idle / 3)
		for _, oi := range r.sortedClients() {
			o := r.clients[oi]
			if o == c || o.Ended() || o.sentFIN || o.reset {
				continue
			}
			o.Send(&hagallpb.Request{Type: hagallpb.MsgType_MSG_TYPE_PING_REQUEST, Timestamp: r.m.stamp(oi), RequestId: o.NextReqID()})
		}
	}
	r.quiesce()
	r.w.sim.Stats["fault.silence_past_idle_timeout"]++
	if !c.Ended() {
		r.v("C08", "idle-not-disconnected", "%s stayed silent for %v (idle timeout %v) and was not disconnected", c.Label, 5*(idle/3), idle)
		r.v("C06", "entity-survived", "%s stayed silent for %v (idle timeout %v) and is still a member", c.Label, 5*(idle/3), idle)
		return
	}
	for _, oi := range r.sortedClients() {
		if o := r.clients[oi]; o != c && o.Ended() && !o.sentFIN && !o.reset && !r.m.conn(oi).Gone {
			r.v("C08", "active-disconnected", "%s kept sending a ping every %v and was disconnected (%s) while %s was idling out (idle timeout %v)", o.Label, idle/3, o.DisconnectErr, c.Label, idle)
		}
	}
	out := r.m.Depart(st.Conn)
	out.Kind = "depart"
	if joined {
		r.res.Triggers["departure"]++
		r.res.Triggers["departure_by_idle_timeout"]++
	}
	r.lastOut = out
	for _, oi := range r.sortedClients() {
		o := r.clients[oi]
		if o == c || o.reset || o.Ended() {
			continue
		}
		var actual []*RecvMsg
		for _, m := range o.NonClock(o.Since()) {
			if m.Type != 39 { // the answers to the keep-alive pings
				actual = append(actual, m)
			}
		}
		if mm := matchStream(actual, filterExp(out.Others[oi], r.dis)); mm != nil {
			r.attributeRelay(out, o, mm)
		}
	}
	r.checkEnded(c, "idle timeout")
	r.checkState(out)
}
