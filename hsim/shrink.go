package hsim

import (
	"testing"
	"time"
)

func hasViolation(res *Result, prop, rule string, known []*KnownFinding) *Violation {
	for i := range res.Violations {
		v := &res.Violations[i]
		if v.Prop == prop && v.Rule == rule && matchKnown(known, *v) == nil {
			return v
		}
	}
	return nil
}

// Shrink is structure-aware delta debugging on the scenario: drop steps (which also drops
// connections, faults and block members), then simplify the world (schedule policy, stalls,
// network), keeping a candidate only if the same (property, rule) still fails.
func Shrink(t *testing.T, sc *Scenario, prop, rule string, known []*KnownFinding, budget time.Duration) (*Scenario, *Violation, int) {
	start := time.Now()
	runs := 0
	cur := *sc
	cur.Steps = append([]Step(nil), sc.Steps...)
	var last *Violation
	try := func(c *Scenario) bool {
		if time.Since(start) > budget {
			return false
		}
		runs++
		res := RunScenario(t, c)
		if res.Failure != "" {
			return false
		}
		if v := hasViolation(res, prop, rule, known); v != nil {
			last = v
			return true
		}
		return false
	}
	// 0. cut everything after the failing step
	if res := RunScenario(t, &cur); res != nil {
		if v := hasViolation(res, prop, rule, known); v != nil {
			last = v
			if v.Step+1 < len(cur.Steps) {
				c := cur
				c.Steps = append([]Step(nil), cur.Steps[:v.Step+1]...)
				// keep whole blocks
				for v.Step+1 < len(cur.Steps) && len(c.Steps) < len(cur.Steps) && cur.Steps[len(c.Steps)].Block != 0 && cur.Steps[len(c.Steps)].Block == cur.Steps[len(c.Steps)-1].Block {
					c.Steps = append(c.Steps, cur.Steps[len(c.Steps)])
				}
				if try(&c) {
					cur = c
				}
			}
		} else {
			return sc, nil, runs // not reproducible: leave as is
		}
	}
	// 1. ddmin over steps
	for chunk := len(cur.Steps) / 2; chunk >= 1; {
		removed := false
		for i := 0; i+chunk <= len(cur.Steps); {
			c := cur
			c.Steps = append(append([]Step(nil), cur.Steps[:i]...), cur.Steps[i+chunk:]...)
			if len(c.Steps) > 0 && try(&c) {
				cur = c
				removed = true
			} else {
				i += chunk
			}
			if time.Since(start) > budget {
				break
			}
		}
		if time.Since(start) > budget {
			break
		}
		if !removed || chunk > len(cur.Steps) {
			chunk /= 2
		}
	}
	// 2. simplify the world
	simpl := []func(w *WorldCfg) bool{
		func(w *WorldCfg) bool {
			if w.StallProb == 0 {
				return false
			}
			w.StallProb = 0
			return true
		},
		func(w *WorldCfg) bool {
			if w.Policy == "seq" {
				return false
			}
			w.Policy, w.Sticky, w.PCTDepth = "seq", 0, 0
			return true
		},
		func(w *WorldCfg) bool {
			if w.UnlockYield == 0 {
				return false
			}
			w.UnlockYield = 0
			return true
		},
		func(w *WorldCfg) bool {
			if w.Net.SplitProb == 0 {
				return false
			}
			w.Net.SplitProb = 0
			return true
		},
		func(w *WorldCfg) bool {
			if w.Net.Jitter == 0 {
				return false
			}
			w.Net.Jitter = 0
			return true
		},
		func(w *WorldCfg) bool {
			if !w.Decorators {
				return false
			}
			w.Decorators = false
			return true
		},
		func(w *WorldCfg) bool {
			if len(w.Flags) == 0 {
				return false
			}
			w.Flags = nil
			return true
		},
		func(w *WorldCfg) bool {
			if w.SortedMaps {
				return false
			}
			w.SortedMaps = true
			return true
		},
	}
	for _, f := range simpl {
		c := cur
		if f(&c.World) && try(&c) {
			cur = c
		}
	}
	// 3. unblock / unpipe individual steps
	for i := range cur.Steps {
		if cur.Steps[i].Pipe {
			c := cur
			c.Steps = append([]Step(nil), cur.Steps...)
			c.Steps[i].Pipe = false
			if try(&c) {
				cur = c
			}
		}
	}
	out := cur
	return &out, last, runs
}
