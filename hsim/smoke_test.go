package hsim

import (
	"encoding/json"
	"fmt"
	"os"
	"strconv"
	"testing"
	"testing/synctest"
	"time"

	"github.com/aukilabs/hagall-common/messages/hagallpb"
	"hagallsim/simrt"
)

func TestSmoke(t *testing.T) {
	synctest.Test(t, func(t *testing.T) {
		w := NewWorld(WorldCfg{Seed: 1, Policy: "rand", Modules: []string{"vikja", "odal", "dagaz"}, Decorators: true, Trace: true,
			Net: NetCfg{MinLat: time.Millisecond, Jitter: time.Millisecond, SplitProb: 0.3}})
		a := w.Connect(ConnectOpts{Label: "a"})
		b := w.Connect(ConnectOpts{Label: "b"})
		w.sim.RunFor(10 * time.Millisecond)
		if a.Status != 101 || b.Status != 101 {
			t.Fatalf("status %d %d; %v", a.Status, b.Status, w.sim.Describe())
		}
		a.Send(&hagallpb.ParticipantJoinRequest{Type: hagallpb.MsgType_MSG_TYPE_PARTICIPANT_JOIN_REQUEST, Timestamp: now(), RequestId: 7})
		w.sim.RunFor(50 * time.Millisecond)
		if !a.View.Joined {
			t.Fatalf("a not joined: %v\n%v", a.Msgs, w.sim.Describe())
		}
		b.Send(&hagallpb.ParticipantJoinRequest{Type: hagallpb.MsgType_MSG_TYPE_PARTICIPANT_JOIN_REQUEST, Timestamp: now(), RequestId: 8, SessionId: a.View.SessionID})
		w.sim.RunFor(50 * time.Millisecond)
		a.Send(&hagallpb.CustomMessage{Type: hagallpb.MsgType_MSG_TYPE_CUSTOM_MESSAGE, Timestamp: now(), Body: []byte("hello")})
		w.sim.RunFor(50 * time.Millisecond)
		for _, m := range b.Msgs {
			t.Logf("b got %v", m)
		}
		for _, m := range a.Msgs {
			t.Logf("a got %v", m)
		}
		a.CloseFIN()
		b.CloseFIN()
		w.sim.RunFor(time.Second)
		t.Logf("live: %v", w.sim.Describe())
		t.Logf("steps=%d failure=%q panics=%d a.ret=%v b.ret=%v disc=%d/%d", w.sim.Steps, w.sim.Failure, len(w.sim.Panics), a.HandleReturned, b.HandleReturned, a.Disconnects, b.Disconnects)
		t.Logf("gauges %+v -> %+v", w.gauge0, readGauges())
		w.Close()
	})
}

// TestGenDump prints the generated scenario of HSIM_PROP for seed HSIM_DUMP_SEED (debugging aid).
func TestGenDump(t *testing.T) {
	sd := os.Getenv("HSIM_DUMP_SEED")
	if sd == "" {
		t.Skip("HSIM_DUMP_SEED not set")
	}
	seed, _ := strconv.ParseUint(sd, 10, 64)
	if ix := os.Getenv("HSIM_DUMP_INDEX"); ix != "" {
		// the seed TestCheck derives for run <index> from the base seed given
		seed = simrt.Mix(seed, fmt.Sprintf("%s/%s", os.Getenv("HSIM_PROP"), ix))
	}
	spec := props[os.Getenv("HSIM_PROP")]
	if spec == nil || spec.Gen == nil {
		t.Skip("no generator")
	}
	sc := spec.Gen(seed, "quick")
	if o := os.Getenv("HSIM_DUMP_OUT"); o != "" {
		b, _ := json.MarshalIndent(&ReplayFile{Property: sc.Prop, Seed: seed, Scenario: sc}, "", " ")
		os.WriteFile(o, b, 0o644)
	}
	for i, st := range sc.Steps {
		b, _ := json.Marshal(st)
		fmt.Println(i, string(b))
	}
}
