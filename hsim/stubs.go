package hsim

import (
	"bytes"
	"io"
	"net/http"
	"time"

	"github.com/google/uuid"
	"github.com/prometheus/client_golang/prometheus"
	dto "github.com/prometheus/client_model/go"
	"hagallsim/simrt"
)

// ---- uuid: seeded

type prngReader struct{ r *simrt.Rand }

func (p prngReader) Read(b []byte) (int, error) {
	for i := range b {
		b[i] = byte(p.r.Uint64())
	}
	return len(b), nil
}

func seedUUID(seed uint64) { uuid.SetRand(prngReader{simrt.NewRand(seed, "uuid")}) }

// ---- gauges (global default registry: read as values, compared as deltas)

type gauges struct {
	Sessions  float64
	Connected float64
}

func readGauges() gauges {
	var g gauges
	mfs, err := prometheus.DefaultGatherer.Gather()
	if err != nil {
		return g
	}
	for _, mf := range mfs {
		switch mf.GetName() {
		case "session_count":
			g.Sessions = sumGauge(mf)
		case "ws_connected_clients":
			g.Connected = sumGauge(mf)
		}
	}
	return g
}

func sumGauge(mf *dto.MetricFamily) float64 {
	s := 0.0
	for _, m := range mf.Metric {
		s += m.GetGauge().GetValue()
	}
	return s
}

// ---- network credit service: the transport behind http.DefaultTransport

type ncsPost struct {
	At   time.Duration
	Body []byte
	Path string
}

type ncsStub struct {
	w     *World
	mode  string
	Posts []ncsPost
	hung  int
}

type ncsTransport struct{}

func (ncsTransport) RoundTrip(req *http.Request) (*http.Response, error) {
	w := theWorld
	if w == nil {
		return nil, io.ErrClosedPipe
	}
	return w.NCS.roundTrip(req)
}

func (n *ncsStub) roundTrip(req *http.Request) (*http.Response, error) {
	simrt.Yield("ncs.RoundTrip")
	var body []byte
	if req.Body != nil {
		body, _ = io.ReadAll(req.Body)
		req.Body.Close()
	}
	switch n.mode {
	case "refuse":
		n.w.sim.Stats["fault.ncs_refused"]++
		return nil, io.ErrUnexpectedEOF
	case "hang":
		n.w.sim.Stats["fault.ncs_hang"]++
		n.hung++
		ch := make(chan struct{})
		stop := context_AfterFunc(req, ch)
		defer stop()
		simrt.Block("ncs.hang", ch)
		return nil, req.Context().Err()
	case "slow":
		n.w.sim.Stats["fault.ncs_slow"]++
		simrt.Sleep(time.Duration(1+n.w.netr.Intn(9000)) * time.Millisecond)
	}
	n.Posts = append(n.Posts, ncsPost{At: n.w.sim.Now(), Body: body, Path: req.URL.Path})
	n.w.sim.Logf("ncs post %d bytes", len(body))
	if n.mode == "drop_reply" && n.w.netr.Bool(0.5) {
		// the service received and processed the POST; the reply is lost on the way back
		n.w.sim.Stats["fault.ncs_reply_lost"]++
		return nil, io.ErrUnexpectedEOF
	}
	return &http.Response{StatusCode: 200, Status: "200 OK", Body: io.NopCloser(bytes.NewReader(nil)), Header: http.Header{}, Request: req, ProtoMajor: 1, ProtoMinor: 1}, nil
}
