package hsim

import (
	"fmt"
	"sort"

	"github.com/aukilabs/hagall-common/messages/hagallpb"
	"github.com/aukilabs/hagall-common/messages/odalpb"
	"github.com/aukilabs/hagall-common/messages/vikjapb"
)

type Pose [7]float32

func poseOf(p *hagallpb.Pose) Pose {
	if p == nil {
		return Pose{}
	}
	return Pose{p.Px, p.Py, p.Pz, p.Rx, p.Ry, p.Rz, p.Rw}
}

type VEntity struct {
	Owner uint32
	Flag  int32
	Pose  Pose
}

type CKey struct{ Type, Entity uint32 }

type VAction struct {
	Entity uint32
	Name   string
	Sec    int64
	Nanos  int32
	Data   string
}

type VAsset struct {
	ID     uint32
	Asset  string
	Owner  uint32
	Entity uint32
}

// View is what a client can know of its session: the states handed to it on joining,
// updated by every broadcast received since.
type View struct {
	Joined       bool
	SessionID    string
	UUID         string
	PID          uint32
	GotState     bool
	GotVikja     bool
	GotOdal      bool
	Participants map[uint32]bool
	Entities     map[uint32]*VEntity
	Components   map[CKey]string
	Actions      map[uint32]map[string]VAction
	Assets       map[uint32]VAsset
	Inapplicable []Inapp
	// Uncertain: components the client updated blindly (it sent an update for a component it
	// had not been told about; whether it took effect depends on requests of others it cannot
	// see). Excluded from the comparison until a list answer refreshes the type.
	Uncertain map[CKey]bool
}

type Inapp struct {
	MsgIdx int
	Kind   string // e.g. "pose-unknown-entity"
	Type   uint32 // component type for component broadcasts
	Detail string
}

func newView() *View { v := &View{}; v.reset(); return v }

func (v *View) reset() {
	v.Joined = false
	v.GotState, v.GotVikja, v.GotOdal = false, false, false
	v.Participants = map[uint32]bool{}
	v.Entities = map[uint32]*VEntity{}
	v.Components = map[CKey]string{}
	v.Actions = map[uint32]map[string]VAction{}
	v.Assets = map[uint32]VAsset{}
	v.Uncertain = nil
}

func vaction(a *vikjapb.EntityAction) VAction {
	va := VAction{Entity: a.GetEntityId(), Name: a.GetName(), Data: string(a.GetData())}
	if a.GetTimestamp() != nil {
		va.Sec, va.Nanos = a.Timestamp.Seconds, a.Timestamp.Nanos
	}
	return va
}

func vasset(a *odalpb.AssetInstance) VAsset {
	return VAsset{ID: a.GetId(), Asset: a.GetAssetId(), Owner: a.GetParticipantId(), Entity: a.GetEntityId()}
}

func (v *View) inapp(m *RecvMsg, kind string, typ uint32, format string, a ...any) {
	v.Inapplicable = append(v.Inapplicable, Inapp{MsgIdx: m.Idx, Kind: kind, Type: typ, Detail: fmt.Sprintf(format, a...)})
}

func (v *View) dropEntity(id uint32) {
	delete(v.Entities, id)
	for k := range v.Components {
		if k.Entity == id {
			delete(v.Components, k)
		}
	}
	delete(v.Actions, id)
	delete(v.Assets, id)
}

func (v *View) apply(m *RecvMsg) {
	switch x := m.Msg.(type) {
	case *hagallpb.ParticipantJoinResponse:
		v.reset()
		v.Joined = true
		v.SessionID, v.UUID, v.PID = x.SessionId, x.SessionUuid, x.ParticipantId
	case *hagallpb.SessionState:
		v.GotState = true
		v.Participants = map[uint32]bool{}
		v.Entities = map[uint32]*VEntity{}
		v.Components = map[CKey]string{}
		for _, p := range x.Participants {
			v.Participants[p.GetId()] = true
		}
		for _, e := range x.Entities {
			v.Entities[e.GetId()] = &VEntity{Owner: e.GetParticipantId(), Flag: int32(e.GetFlag()), Pose: poseOf(e.GetPose())}
		}
		for _, c := range x.EntityComponents {
			v.Components[CKey{c.GetEntityComponentTypeId(), c.GetEntityId()}] = string(c.GetData())
		}
	case *vikjapb.State:
		v.GotVikja = true
		v.Actions = map[uint32]map[string]VAction{}
		for _, a := range x.EntityActions {
			if v.Actions[a.GetEntityId()] == nil {
				v.Actions[a.GetEntityId()] = map[string]VAction{}
			}
			v.Actions[a.GetEntityId()][a.GetName()] = vaction(a)
		}
	case *odalpb.State:
		v.GotOdal = true
		v.Assets = map[uint32]VAsset{}
		for _, a := range x.AssetInstances {
			v.Assets[a.GetEntityId()] = vasset(a)
		}
	case *hagallpb.ParticipantJoinBroadcast:
		if v.Participants[x.ParticipantId] {
			v.inapp(m, "join-of-known-participant", 0, "participant %d", x.ParticipantId)
		}
		v.Participants[x.ParticipantId] = true
	case *hagallpb.ParticipantLeaveBroadcast:
		if !v.Participants[x.ParticipantId] {
			v.inapp(m, "leave-of-unknown-participant", 0, "participant %d", x.ParticipantId)
		}
		delete(v.Participants, x.ParticipantId)
	case *hagallpb.EntityAddBroadcast:
		e := x.GetEntity()
		if _, ok := v.Entities[e.GetId()]; ok {
			v.inapp(m, "add-of-known-entity", 0, "entity %d", e.GetId())
		}
		v.Entities[e.GetId()] = &VEntity{Owner: e.GetParticipantId(), Flag: int32(e.GetFlag()), Pose: poseOf(e.GetPose())}
	case *hagallpb.EntityDeleteBroadcast:
		if _, ok := v.Entities[x.EntityId]; !ok {
			v.inapp(m, "delete-of-unknown-entity", 0, "entity %d", x.EntityId)
		}
		v.dropEntity(x.EntityId)
	case *hagallpb.EntityUpdatePoseBroadcast:
		e, ok := v.Entities[x.EntityId]
		if !ok {
			v.inapp(m, "pose-of-unknown-entity", 0, "entity %d", x.EntityId)
			return
		}
		e.Pose = poseOf(x.Pose)
	case *hagallpb.EntityComponentAddBroadcast:
		c := x.GetEntityComponent()
		k := CKey{c.GetEntityComponentTypeId(), c.GetEntityId()}
		if _, ok := v.Components[k]; ok {
			v.inapp(m, "add-of-known-component", k.Type, "component %v", k)
		}
		if _, ok := v.Entities[k.Entity]; !ok {
			v.inapp(m, "component-of-unknown-entity", k.Type, "component %v", k)
			return // a client cannot attach anything to an entity it does not know
		}
		v.Components[k] = string(c.GetData())
	case *hagallpb.EntityComponentDeleteBroadcast:
		c := x.GetEntityComponent()
		k := CKey{c.GetEntityComponentTypeId(), c.GetEntityId()}
		if _, ok := v.Components[k]; !ok {
			v.inapp(m, "delete-of-unknown-component", k.Type, "component %v", k)
		}
		delete(v.Components, k)
	case *hagallpb.EntityComponentUpdateBroadcast:
		c := x.GetEntityComponent()
		k := CKey{c.GetEntityComponentTypeId(), c.GetEntityId()}
		if _, ok := v.Components[k]; !ok {
			v.inapp(m, "update-of-unknown-component", k.Type, "component %v", k)
			return
		}
		v.Components[k] = string(c.GetData())
	case *hagallpb.EntityComponentListResponse:
		// a list response is authoritative for the types it mentions; the caller (model)
		// knows which type was asked for and refreshes through RefreshType.
	case *vikjapb.EntityActionBroadcast:
		a := x.GetEntityAction()
		if _, ok := v.Entities[a.GetEntityId()]; !ok {
			v.inapp(m, "action-of-unknown-entity", 0, "entity %d", a.GetEntityId())
			return
		}
		if v.Actions[a.GetEntityId()] == nil {
			v.Actions[a.GetEntityId()] = map[string]VAction{}
		}
		v.Actions[a.GetEntityId()][a.GetName()] = vaction(a)
	case *odalpb.AssetInstanceAddBroadcast:
		a := x.GetAssetInstance()
		if _, ok := v.Entities[a.GetEntityId()]; !ok {
			v.inapp(m, "asset-of-unknown-entity", 0, "entity %d", a.GetEntityId())
			return
		}
		v.Assets[a.GetEntityId()] = vasset(a)
	}
}

// RefreshType replaces the view's components of one type by a list response.
func (v *View) RefreshType(typ uint32, list []*hagallpb.EntityComponent) {
	for k := range v.Uncertain {
		if k.Type == typ {
			delete(v.Uncertain, k)
		}
	}
	for k := range v.Components {
		if k.Type == typ {
			delete(v.Components, k)
		}
	}
	for _, c := range list {
		v.Components[CKey{c.GetEntityComponentTypeId(), c.GetEntityId()}] = string(c.GetData())
	}
}

func sortedU32(m map[uint32]bool) []uint32 {
	out := make([]uint32, 0, len(m))
	for k := range m {
		out = append(out, k)
	}
	sort.Slice(out, func(i, j int) bool { return out[i] < out[j] })
	return out
}

// applyOwn applies the effect of the client's own accepted request (a client is not sent a
// broadcast for what it did itself; it knows from the answer).
func (v *View) applyOwn(req any, got []*RecvMsg, rid uint32) {
	switch q := req.(type) {
	case *hagallpb.EntityAddRequest:
		if r := findByRID(got, rid, 9); r != nil {
			id := r.Msg.(*hagallpb.EntityAddResponse).EntityId
			v.Entities[id] = &VEntity{Owner: v.PID, Flag: int32(q.Flag), Pose: poseOf(q.Pose)}
		}
	case *hagallpb.EntityDeleteRequest:
		v.dropEntity(q.EntityId)
	case *hagallpb.EntityComponentAddRequest:
		// (an attachment to an entity the client has meanwhile been told is gone means nothing
		// to it, exactly as for a broadcast)
		if _, ok := v.Entities[q.EntityId]; ok {
			v.Components[CKey{q.EntityComponentTypeId, q.EntityId}] = string(q.Data)
		}
	case *hagallpb.EntityComponentDeleteRequest:
		delete(v.Components, CKey{q.EntityComponentTypeId, q.EntityId})
	case *vikjapb.EntityActionRequest:
		a := q.GetEntityAction()
		if _, ok := v.Entities[a.GetEntityId()]; !ok {
			return
		}
		if v.Actions[a.GetEntityId()] == nil {
			v.Actions[a.GetEntityId()] = map[string]VAction{}
		}
		v.Actions[a.GetEntityId()][a.GetName()] = vaction(a)
	case *odalpb.AssetInstanceAddRequest:
		if _, ok := v.Entities[q.EntityId]; !ok {
			return
		}
		if r := findByRID(got, rid, 202); r != nil {
			v.Assets[q.EntityId] = VAsset{ID: r.Msg.(*odalpb.AssetInstanceAddResponse).AssetInstanceId, Asset: q.AssetId, Owner: v.PID, Entity: q.EntityId}
		}
	case *hagallpb.EntityComponentListRequest:
		for _, r := range got {
			if lr, ok := r.Msg.(*hagallpb.EntityComponentListResponse); ok && r.ReqID == rid {
				v.RefreshType(q.EntityComponentTypeId, lr.EntityComponents)
			}
		}
	}
}

// applyOwnUnanswered: requests that get no answer (pose and component updates) are applied to
// the sender's own view when sent, if to the sender's knowledge they are valid.
func (v *View) applyOwnUnanswered(req any) {
	switch q := req.(type) {
	case *hagallpb.EntityUpdatePose:
		if e, ok := v.Entities[q.EntityId]; ok && e.Owner == v.PID && q.Pose != nil {
			e.Pose = poseOf(q.Pose)
		}
	case *hagallpb.EntityComponentUpdate:
		k := CKey{q.EntityComponentTypeId, q.EntityId}
		if _, ok := v.Components[k]; ok {
			v.Components[k] = string(q.Data)
		} else {
			if v.Uncertain == nil {
				v.Uncertain = map[CKey]bool{}
			}
			v.Uncertain[k] = true
		}
	}
}
