package hsim

import "encoding/binary"

// RFC 6455 framing written for the harness (so that clients can also emit unmasked,
// fragmented, oversized, text, control and truncated frames).

const (
	opCont  = 0
	opText  = 1
	opBin   = 2
	opClose = 8
	opPing  = 9
	opPong  = 10
)

type frame struct {
	op      byte
	fin     bool
	payload []byte
}

// encodeFrame builds one frame. mask == nil produces an unmasked frame (a protocol error
// when sent by a client). declLen >= 0 overrides the declared payload length.
func encodeFrame(op byte, fin bool, payload []byte, mask *[4]byte, declLen int64) []byte {
	b0 := op & 0x0f
	if fin {
		b0 |= 0x80
	}
	n := int64(len(payload))
	if declLen >= 0 {
		n = declLen
	}
	out := []byte{b0}
	mb := byte(0)
	if mask != nil {
		mb = 0x80
	}
	switch {
	case n < 126:
		out = append(out, mb|byte(n))
	case n < 65536:
		out = append(out, mb|126, byte(n>>8), byte(n))
	default:
		var l [8]byte
		binary.BigEndian.PutUint64(l[:], uint64(n))
		out = append(out, mb|127)
		out = append(out, l[:]...)
	}
	if mask != nil {
		out = append(out, mask[:]...)
		for i, c := range payload {
			out = append(out, c^mask[i%4])
		}
	} else {
		out = append(out, payload...)
	}
	return out
}

// frameParser incrementally parses the (unmasked) frames a server sends.
type frameParser struct {
	buf []byte
	bad bool
}

func (p *frameParser) feed(b []byte) []frame {
	p.buf = append(p.buf, b...)
	var out []frame
	for {
		if len(p.buf) < 2 {
			return out
		}
		b0, b1 := p.buf[0], p.buf[1]
		n := int64(b1 & 0x7f)
		off := 2
		switch n {
		case 126:
			if len(p.buf) < 4 {
				return out
			}
			n = int64(binary.BigEndian.Uint16(p.buf[2:4]))
			off = 4
		case 127:
			if len(p.buf) < 10 {
				return out
			}
			n = int64(binary.BigEndian.Uint64(p.buf[2:10]))
			off = 10
		}
		masked := b1&0x80 != 0
		if masked {
			off += 4
		}
		if int64(len(p.buf)) < int64(off)+n {
			return out
		}
		pl := append([]byte(nil), p.buf[off:int64(off)+n]...)
		if masked {
			p.bad = true
			m := p.buf[off-4 : off]
			for i := range pl {
				pl[i] ^= m[i%4]
			}
		}
		out = append(out, frame{op: b0 & 0x0f, fin: b0&0x80 != 0, payload: pl})
		p.buf = p.buf[int64(off)+n:]
	}
}
