package hsim

import (
	"bufio"
	"context"
	"crypto/ecdsa"
	"fmt"
	"net"
	"net/http"
	"runtime"
	"strings"
	"time"

	"github.com/aukilabs/go-tooling/pkg/logs"
	hds "github.com/aukilabs/hagall-common/hdsclient"
	httpcmn "github.com/aukilabs/hagall-common/http"
	"github.com/aukilabs/hagall-common/ncsclient"
	"github.com/aukilabs/hagall/featureflag"
	hagallhttp "github.com/aukilabs/hagall/http"
	"github.com/aukilabs/hagall/models"
	"github.com/aukilabs/hagall/modules"
	"github.com/aukilabs/hagall/modules/dagaz"
	"github.com/aukilabs/hagall/modules/odal"
	"github.com/aukilabs/hagall/modules/vikja"
	"github.com/aukilabs/hagall/receipt"
	hwebsocket "github.com/aukilabs/hagall/websocket"
	"github.com/ethereum/go-ethereum/crypto"
	"golang.org/x/net/websocket"
	"hagallsim/simrt"
)

type NetCfg struct {
	MinLat    time.Duration `json:"min_lat"`
	Jitter    time.Duration `json:"jitter"`
	SplitProb float64       `json:"split_prob"` // probability that a read / a send is re-segmented
	Window    int           `json:"window"`     // bytes in flight towards a client before the server's write blocks
}

type WorldCfg struct {
	Seed          uint64        `json:"seed"`
	Policy        string        `json:"policy"`
	Sticky        float64       `json:"sticky,omitempty"`
	PCTDepth      int           `json:"pct_depth,omitempty"`
	PCTLen        int           `json:"pct_len,omitempty"`
	StallProb     float64       `json:"stall_prob,omitempty"`
	StallMax      time.Duration `json:"stall_max,omitempty"`
	SortedMaps    bool          `json:"sorted_maps,omitempty"`
	SelectOrder   string        `json:"select_order,omitempty"`
	UnlockYield   float64       `json:"unlock_yield,omitempty"`
	StmtYield     float64       `json:"stmt_yield,omitempty"`
	Net           NetCfg        `json:"net"`
	Modules       []string      `json:"modules"`
	Flags         []string      `json:"flags,omitempty"`
	Decorators    bool          `json:"decorators"`
	FrameDuration time.Duration `json:"frame"`
	IdleTimeout   time.Duration `json:"idle"`
	SyncClock     time.Duration `json:"sync_clock"`
	Summary       time.Duration `json:"summary"`
	NCSMode       string        `json:"ncs_mode,omitempty"` // up | slow | hang | refuse
	NoAuth        bool          `json:"no_auth,omitempty"`
	// client clock fault: the timestamps connections write into their messages are off from the
	// server's clock. "const": by SkewBase seconds; "saw": additionally stepping backwards two
	// seconds per request, three times out of four; "jumpback": set back by an hour after the
	// fourth request. Even connections only, so that skewed and unskewed clients share sessions.
	Skew     string `json:"skew,omitempty"`
	SkewBase int64  `json:"skew_base,omitempty"`
	Trace    bool   `json:"-"`
	MaxSteps uint64 `json:"max_steps,omitempty"`
}

const serverKeyHex = "59c6995e998f97a5a0044966f0945389dc9e86dae88c7a8412f4603b6b78690d"
const hdsServerID = "srv7"
const hdsSecret = "c2VjcmV0LWZvci10aGUtc2ltdWxhdGVkLWhkcw"

type World struct {
	cfg  WorldCfg
	sim  *simrt.Sim
	netr *simrt.Rand

	Sessions    *models.SessionStore
	HDS         *hds.Client
	ReceiptChan chan ncsclient.ReceiptPayload
	PrivKey     *ecdsa.PrivateKey
	NCS         *ncsStub

	ctx    context.Context
	cancel context.CancelFunc

	Clients []*Client

	ledger       *ledger
	handshake    func(*websocket.Config, *http.Request) error // created once, as cmd/main.go does
	symOf        map[string]string                            // session uuid -> symbolic session name (differential checks)
	lastActivity time.Duration                                // last non-sync-clock traffic in either direction
	gauge0       gauges
}

var theWorld *World // the RoundTripper needs to find the current world

func init() {
	logs.SetLogger(func(logs.Entry) {})
	http.DefaultTransport = ncsTransport{}
}

func NewWorld(cfg WorldCfg) *World {
	if cfg.Net.Window == 0 {
		cfg.Net.Window = 64 << 10
	}
	if cfg.Net.MinLat == 0 {
		cfg.Net.MinLat = 100 * time.Microsecond
	}
	if cfg.FrameDuration == 0 {
		cfg.FrameDuration = 15 * time.Millisecond
	}
	if cfg.IdleTimeout == 0 {
		cfg.IdleTimeout = 24 * time.Hour
	}
	if cfg.SyncClock == 0 {
		cfg.SyncClock = 5 * time.Second
	}
	if cfg.Summary == 0 {
		cfg.Summary = time.Minute
	}
	w := &World{cfg: cfg, ledger: newLedger(), symOf: map[string]string{}}
	w.sim = simrt.New(simrt.Config{
		Seed: cfg.Seed, Policy: cfg.Policy, Sticky: cfg.Sticky, PCTDepth: cfg.PCTDepth, PCTLen: cfg.PCTLen,
		StallProb: cfg.StallProb, StallMax: cfg.StallMax, SortedMaps: cfg.SortedMaps, SelectOrder: cfg.SelectOrder, UnlockYield: cfg.UnlockYield, StmtYield: cfg.StmtYield, Trace: cfg.Trace, MaxSteps: cfg.MaxSteps,
	})
	w.netr = simrt.NewRand(cfg.Seed, "net")
	seedUUID(cfg.Seed)
	w.PrivKey, _ = crypto.HexToECDSA(serverKeyHex)
	w.HDS = hds.NewClient(hds.WithHagallEndpoint("http://hagall.test"), hds.WithHDSEndpoint("http://hds.test"), hds.WithPrivateKey(w.PrivKey))
	w.HDS.SetServerData(hdsServerID, hdsSecret)
	w.Sessions = &models.SessionStore{DiscoveryService: w.HDS}
	w.ReceiptChan = make(chan ncsclient.ReceiptPayload, 128)
	w.ctx, w.cancel = context.WithCancel(context.Background())
	w.NCS = &ncsStub{w: w, mode: cfg.NCSMode}
	theWorld = w
	rh := receipt.ReceiptHandler{NCSEndpoint: "http://ncs.test", ReceiptChan: w.ReceiptChan}
	rh.HandleReceipts(w.ctx)
	w.gauge0 = readGauges()
	return w
}

func (w *World) Sim() *simrt.Sim { return w.sim }
func (w *World) Cfg() WorldCfg   { return w.cfg }

func (w *World) moduleList() []modules.Module {
	var ms []modules.Module
	for _, m := range w.cfg.Modules {
		switch m {
		case "vikja":
			ms = append(ms, &vikja.Module{})
		case "odal":
			ms = append(ms, &odal.Module{})
		case "dagaz":
			ms = append(ms, &dagaz.Module{})
		}
	}
	return ms
}

func (w *World) hasModule(n string) bool {
	for _, m := range w.cfg.Modules {
		if m == n {
			return true
		}
	}
	return false
}

// relayHandler replicates the connection closure of cmd/main.go (which cannot be called:
// main() opens real listeners).
func (w *World) relayHandler(c *Client) websocket.Handler {
	return func(conn *websocket.Conn) {
		defer conn.Close()
		c.InnerEntered++

		var rh hwebsocket.Handler = &hwebsocket.RealtimeHandler{
			ClientSyncClockInterval: w.cfg.SyncClock,
			ClientIdleTimeout:       w.cfg.IdleTimeout,
			FrameDuration:           w.cfg.FrameDuration,
			Sessions:                w.Sessions,
			Modules:                 w.moduleList(),
			FeatureFlags:            featureflag.New(w.cfg.Flags),
			ReceiptChan:             w.ReceiptChan,
			PrivateKey:              w.PrivKey,
		}
		c.rt = rh.(*hwebsocket.RealtimeHandler)
		h := rh
		if w.cfg.Decorators {
			h = hwebsocket.HandlerWithLogs(h, w.cfg.Summary)
			h = hwebsocket.HandlerWithMetrics(h, "http://hagall.test")
		}
		defer h.Close()
		c.wrapped = &countingHandler{Handler: h, c: c}

		hwebsocket.Handle(w.ctx, conn, c.wrapped)
		c.HandleReturned = true
	}
}

// countingHandler counts HandleDisconnect calls (C06/C08: exactly once); nothing else changes.
type countingHandler struct {
	hwebsocket.Handler
	c *Client
}

func (h *countingHandler) HandleDisconnect(err error) {
	h.c.Disconnects++
	if err != nil {
		h.c.DisconnectErr = err.Error()
	}
	h.Handler.HandleDisconnect(err)
}

type hijackWriter struct {
	conn   *Conn
	header http.Header
	status int
}

func (h *hijackWriter) Header() http.Header         { return h.header }
func (h *hijackWriter) Write(b []byte) (int, error) { return len(b), nil }
func (h *hijackWriter) WriteHeader(s int)           { h.status = s }
func (h *hijackWriter) Hijack() (net.Conn, *bufio.ReadWriter, error) {
	return h.conn, bufio.NewReadWriter(bufio.NewReader(h.conn), bufio.NewWriter(h.conn)), nil
}

type ConnectOpts struct {
	Label    string
	Token    string // "" = mint a valid one
	NoToken  bool
	Carrier  string // header | query | cookie (default header)
	ClientID string
	AppKey   string
	Headers  map[string]string
	Inner    websocket.Handler // replaces the relay handler (C15)
	Tokens   map[string]string // carrier -> token (C15: several carriers at once)
}

func (w *World) MintToken(appKey string, ttl time.Duration) string {
	tok, err := httpcmn.GenerateHagallUserAccessToken(appKey, w.HDS.Secret(), ttl)
	if err != nil {
		panic(err)
	}
	return tok
}

// Connect opens a simulated connection and starts the real websocket.Server on it.
func (w *World) Connect(o ConnectOpts) *Client {
	id := len(w.Clients)
	c := &Client{w: w, ID: id, Label: o.Label, reading: true, opts: o}
	if c.Label == "" {
		c.Label = fmt.Sprintf("c%d", id)
	}
	c.mask = simrt.NewRand(w.cfg.Seed, "mask:"+c.Label)
	conn := &Conn{w: w, id: id, client: c, window: w.cfg.Net.Window}
	c.conn = conn
	c.View = newView()
	w.Clients = append(w.Clients, c)

	url := "http://hagall.test/"
	tok := o.Token
	if tok == "" && !o.NoToken {
		tok = w.MintToken(o.AppKey, time.Hour)
	}
	if o.Carrier == "query" && tok != "" {
		url += "?access_token=" + tok
	}
	req, _ := http.NewRequest("GET", url, nil)
	req.Header.Set("Upgrade", "websocket")
	req.Header.Set("Connection", "Upgrade")
	req.Header.Set("Sec-WebSocket-Key", "dGhlIHNhbXBsZSBub25jZQ==")
	req.Header.Set("Sec-WebSocket-Version", "13")
	if o.ClientID != "" {
		req.Header.Set(httpcmn.HeaderPosemeshClientID, o.ClientID)
	}
	switch o.Carrier {
	case "query":
	case "cookie":
		if tok != "" {
			req.AddCookie(&http.Cookie{Name: "access_token", Value: tok})
		}
	default:
		if tok != "" {
			req.Header.Set("Authorization", "Bearer "+tok)
		}
	}
	for k, v := range o.Headers {
		req.Header.Set(k, v)
	}
	if o.Tokens != nil {
		applyCarriers(req, o.Tokens)
	}
	req.RemoteAddr = "10.0.0.1:1234"

	inner := o.Inner
	if inner == nil {
		inner = w.relayHandler(c)
	}
	srv := websocket.Server{Handler: inner}
	if !w.cfg.NoAuth {
		if w.handshake == nil {
			w.handshake = hagallhttp.VerifyAuthToken(w.ctx, w.HDS)
		}
		srv.Handshake = w.handshake
	}
	rw := &hijackWriter{conn: conn, header: http.Header{}}
	w.sim.Logf("connect %s", c.Label)
	c.task = w.sim.GoLabel("conn.serve", c.Label, func() {
		// what net/http's conn.serve does around a handler: recover, log, leave hijacked
		// connections alone.
		defer func() {
			if r := recover(); r != nil {
				buf := make([]byte, 8<<10)
				c.ServePanic = fmt.Sprint(r)
				c.ServePanicStack = string(buf[:runtime.Stack(buf, false)])
			}
			c.ServeReturned = true
		}()
		srv.ServeHTTP(rw, req)
	})
	return c
}

func (w *World) latency() time.Duration {
	d := w.cfg.Net.MinLat
	if w.cfg.Net.Jitter > 0 {
		d += time.Duration(w.netr.Intn(int(w.cfg.Net.Jitter/time.Microsecond)+1)) * time.Microsecond
	}
	return d
}

// deliverToClient schedules a chunk written by the server for delivery (FIFO per direction).
func (w *World) deliverToClient(c *Conn, chunk []byte) {
	now := w.sim.Now()
	at := now + w.latency()
	if at < c.lastOutAt {
		at = c.lastOutAt
	}
	c.lastOutAt = at
	cl := c.client
	w.sim.After(at-now, "net>c", func() {
		if cl.reset {
			return
		}
		cl.pending = append(cl.pending, chunk)
		cl.drain()
	})
}

func (w *World) serverClosed(c *Conn) {
	now := w.sim.Now()
	at := now + w.latency()
	if at < c.lastOutAt {
		at = c.lastOutAt
	}
	c.lastOutAt = at
	cl := c.client
	w.sim.After(at-now, "net>c.fin", func() {
		cl.finPending = true
		cl.drain()
	})
}

// sendToServer delivers client bytes, re-segmented, in order, after the network latency.
func (w *World) sendToServer(c *Conn, b []byte) {
	for len(b) > 0 {
		n := len(b)
		if n > 1 && w.netr.Bool(w.cfg.Net.SplitProb) {
			n = 1 + w.netr.Intn(n)
		}
		chunk := append([]byte(nil), b[:n]...)
		b = b[n:]
		now := w.sim.Now()
		// bytes written at the same instant travel together (one segment, or back to back)
		if now != c.lastSendNow || c.lastSendLat == 0 {
			c.lastSendNow, c.lastSendLat = now, w.latency()
		}
		at := now + c.lastSendLat
		if at < c.lastInAt {
			at = c.lastInAt // FIFO: equal times keep their order through the event sequence number
		}
		c.lastInAt = at
		w.sim.After(at-now, "net>s", func() {
			if c.closed || c.inErr != nil || c.inEOF {
				return
			}
			c.in = append(c.in, chunk...)
			c.wakeRead()
		})
	}
}

func (w *World) clientFIN(c *Conn) {
	now := w.sim.Now()
	at := now + w.latency()
	if at < c.lastInAt {
		at = c.lastInAt
	}
	c.lastInAt = at
	w.sim.After(at-now, "net>s.fin", func() {
		c.inEOF = true
		c.wakeRead()
	})
}

func (w *World) clientRST(c *Conn) {
	w.sim.After(w.latency(), "net>s.rst", func() {
		c.inErr = errReset
		c.outErr = errReset
		c.in = nil
		c.wakeRead()
		c.wakeWrite()
	})
}

// Close ends the world: cancels the server context and kills what is left.
func (w *World) Close() {
	w.cancel()
	w.sim.Settle()
	w.sim.Close()
	if theWorld == w {
		theWorld = nil
	}
}

func isSyncClock(t int32) bool { return t == 1 }

var _ = strings.HasPrefix
