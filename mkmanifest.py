#!/usr/bin/env python3
"""Writes MANIFEST.json. Edit CLAIMS / NA here, run, commit."""
import json, os

HERE = os.path.dirname(os.path.abspath(__file__))

TECH = "deterministic simulation with fault injection: the real server runs on a seeded scheduler, simulated clock and network; seeded search over histories, interleavings and faults; oracle = "

CLAIMS = {
    "C01": ("reference model + replicated client views + server state through the repository's accessors, compared at every quiescence point; permutation search for concurrent blocks",
            "Seeded exploration of sequential histories (exact per-connection stream expectation from a reference model) and of concurrent blocks of 2-5 requests under random-walk/PCT schedules with unlock yields, task stalls and client clock skew: uniformly drawn blocks, focus blocks (all requests on one entity/component/action), endgame blocks (every member leaves while others create, join by id or switch in) and duels; views, server state, model-free state invariants and joiner state are compared at every quiescent point. Sampling, not enumeration.", "§7 C01"),
    "C02": ("per-connection expected relay streams from the reference model (exactly once, no echo, FIFO per originator), multiset check for members present throughout a concurrent block",
            "Every accepted request's relays are predicted by the model and compared message by message with what each connection received; refused requests must produce none.", "§7 C02"),
    "C04": ("admissible answer set per request from the reference model; exactly one answer at the requester; refused requests leave model, views and server state unchanged",
            "Request kinds x field classes x session states are generated after arbitrary histories; each answer must be a member of the admissible set derived from the property text and proto files.", "§7 C04"),
    "C05": ("reference model ownership rule; refused attempts must relay nothing and change no view; participant ids never reissued per session UUID",
            "Histories biased to (requester, entity) pairs incl. late joiners after the owner left; exact stream and state comparison.", "§7 C05"),
    "C06": ("model of departure (delete relays in any order, then one leave relay; attachments cascade; persistent entities survive) against streams, server state and later joiners; HandleDisconnect counted",
            "Departures by FIN, RST, protocol error, idle timeout (on the simulated clock, while the other members keep sending), server-side disconnect and session switch are injected after histories that build entities with components, actions, assets and subscriptions; a share of the departures overlaps other members' requests on the leaver's entities.", "§7 C06"),
    "C11": ("per observer and entity: relays are an order preserving selection of the poses sent ending with the last; exact relay expectation for sequential updates; server/joiner pose equals last accepted",
            "Numbered pose updates in sequential steps, pipelined bursts across frame ticks of 1 ms - 500 ms (also naming ids of another session right before a switch), blocks in which joins, switches, departures and deletions arrive at the instant of the tick that flushes pending updates, a probe joiner after such blocks, stalled readers with 520-1500 relays outstanding, and client clocks that are skewed or step backwards.", "§7 C11"),
    "C12": ("reference map keyed (type, entity) against answers, list responses, joiner state and server store",
            "Histories of type registrations, adds, updates, deletes, lists and entity removals with existing, never-existing and no-longer-existing ids.", "§7 C12"),
    "C13": ("reference subscription relation: must-receive / may-receive / must-not-receive sets per component change",
            "Subscribe/unsubscribe/join/leave/component changes by >= 3 members over several types; exact streams.", "§7 C13"),
    "C14": ("byte-exact expected broadcast, exact recipient set, limit boundary from the statement (10240)",
            "Body lengths around the limit and arbitrary bytes, recipient lists over members, strangers, duplicates, departed ids and the sender, the same list again after a session switch; sessions that 62-258 connections have passed through (participant ids beyond 64/128/256); a small share of simultaneous targeted messages.", "§7 C14"),
    "C16": ("reference last-writer-wins action map and one-asset-per-entity map against answers, relays, module state and joiner state",
            "Action/asset requests with equal, older (by seconds and by one nanosecond), far-future, zero, negative and absent timestamps interleaved with deletions and departures.", "§7 C16"),
}

CLAIMS.update({
    "C03": ("differential re-execution: the history is run again with every step outside the observed session removed and the members' streams are compared message by message (session ids/uuids normalised; participant, entity, type and asset ids must coincide unnormalised); plus the per-session reference model in the first execution",
            "Histories over 2-3 sessions with connections that never join, that switch, that name ids valid only elsewhere, and session ids reused after a session ended; sequential policy so that both executions are functions of the history.", "§7 C03"),
    "C07": ("registry beliefs (every successful join resolves under the returned id/uuid and lists the participant), model of session lifetime, session_count gauge delta, live frame-worker tasks = live sessions, permutation search over concurrent joins/departures",
            "Create/join/switch/leave cycles over <= 3 symbolic sessions with id reuse, plus concurrent blocks (join of an existing session against the last departure, two last departures, two creations, departure against creation) under random-walk and PCT schedules.", "§7 C07"),
    "C08": ("after every offence: no panic in any task, the offender is either still served (ping answered) or ended through the normal path exactly once (handler returned, HandleDisconnect once, not a member any more, no non-persistent entity left, gauge restored), both witnesses still served; slow readers that resume receive everything exactly once in order; silent clients are disconnected at the idle timeout, keep-alive clients are not",
            "Offences sampled per run (a quarter of the offenders have switched session before; client clocks may be skewed): descriptor-driven structurally valid messages of all four packages with absent sub-messages and boundary floats, raw garbage, unmasked/text/fragmented/oversized/control frames, bursts of 1-600 failing requests, closes mid-frame (FIN/RST), read stalls with up to 1500 relayed and 600 own messages outstanding followed by resume/FIN/RST, silence and keep-alive across the idle timeout on the simulated clock; under random-walk/PCT schedules with fixed or random select preference. All byte sequences are sampled, not enumerated.", "§7 C08"),
    "C17": ("differential re-execution: stream under flag set F = flag-free stream filtered by F, exactly, per connection; same final server state; reference model filtered by F in the first execution (same answers, same state)",
            "Histories executed under a flag set and again without flags; quick covers the empty set, all ten, the ten singletons and pseudo-random subsets plus unknown names; thorough walks through all 1024 subsets.", "§7 C17"),
    "C09": ("deadlock states (a task waiting for a lock at quiescence), every request of a block answered exactly once, model-free state invariants (attachments belong to existing entities, entities and subscriptions to members), no two mutually exclusive successes, latest timestamp kept, relays explained by the block, race-detector reports whose two accesses are in hagall code, server returns to its initial state after all clients close",
            "2-16 connections in shared sessions with all modules and the production decorators (off in a third of the runs so that the race detector sees through fmt's pools); concurrent blocks of 2-5 requests (permutation search, double-success, stale-winner, relay-mismatch and state-invariant rules), blocks of 6-16 simultaneous requests (liveness), and three contention families (component storm, duel on one entity/component/action, ground duel) under random-walk/PCT schedules with unlock yields and injected task stalls; 6 of 16 quick workers (8 thorough) run the race-detector build.", "§7 C09"),
    "C10": ("history invariants over every id the server hands out (fresh session id among live sessions, participant/entity ids never reissued per session UUID, type ids <-> names bijective, asset ids unique) and a generator micro-world (no id outstanding twice)",
            "Long create/end cycles, joins, entity/type/asset allocations, concurrent allocation blocks; in a quarter of the runs 1-8 tasks call New/Reuse on one SequentialIDGenerator under the simulated scheduler. Sequences are sampled, not enumerated.", "§7 C10"),
    "C15": ("two-sided, conservative: a single carrier holding a token that is clearly valid under the secret currently issued (HS256, right key, iat <= now < exp with margins on the simulated clock) must be admitted and the inner handler entered once; a token not valid under any secret current during the attempt even with 15 s of leeway (every mutation, other/empty key, alg none, expired, not yet valid, no secret held) must be rejected with the inner handler never entered; everything else is not asserted",
            "The real websocket.Server{Handshake: VerifyAuthToken} and VerifyAuthTokenHandler in front of harness-owned inner handlers; tokens minted, mutated and re-presented while the simulated clock crosses expiry and not-before and while HDS events (registered, rotated, secret lost, rotation at the very instant of a handshake) interleave with attempts; header, query and cookie carriers and their combinations. The token-mutation dimension is seeded input generation; the clock and rotation dimensions are simulation proper.", "§7 C15, §8"),
    "C18": ("per measurement: started only for a joined requester with 3-50 rounds and a wallet; exactly that many pings; one report whose signature recovers the server wallet over exactly the returned data; data names client id, session uuid, wallet; ping id set = ids issued, each once; 0 <= min <= mean <= max, p95 and last within; last = latency of the final round (rounds are given round-trip times 10 ms apart on the simulated clock, tolerance 2 ms); duplicate, unknown and replayed answers are refused and do not advance",
            "Iteration counts 0-60 and extremes, wallet strings, joined / not joined; client behaviours on the simulated clock: honest, answer a ping twice, answer unknown ids, replay an old answer after completion, restart mid-way, run a second measurement on the same connection; client clock (the timestamps it writes) off by seconds, hours or decades.", "§7 C18"),
    "C19": ("independent validity decision (Keccak-256 from x/crypto/sha3, recoverability from decred RecoverCompact) against what the simulated credit service received: forwarded = valid accepted, at most once, JSON body field for field; exactly one answer per submission (accepted / bad request / too busy); the submitter is still served while the forwarder is stalled",
            "Valid triples and every single-field corruption, resubmissions of an accepted triple unchanged or with only its signature damaged, 1-300 submissions from 1-6 connections, credit service up / slow / hanging / refusing / dropping the reply (transport stub on the simulated clock), forwarder task stalled by the scheduler so that the queue of 128 fills; statement-level scheduling points in receipt/handler.go.", "§7 C19"),
    "C20": ("invariants over the exported fields of the session's RegularGrid after every delivered sample (every stored plane registered in every cell its footprint overlaps, bounds contain every footprint, PlaneCount = distinct stored planes, covering region query returns each exactly once, vertical ray through a centre hits), stored planes never decrease across joins/leaves, what a second member is told over the protocol equals what is stored; the geometric-primitive clause is evaluated on seeded vectors against a math/big reference as a labelled, non-simulated side oracle",
            "Quad samples (finite, |coord| <= 64 m, positive extents; appends, merges, cascade merges, growth in all four directions) sent by 1-3 members, a share of them at the same instant with statement-level scheduling points inside the grid code, interleaved with joins and leaves; region and ray queries from another member.", "§7 C20, §8"),
})

NA = {
}

PENDING = "check not built yet in this session (work in progress, see DESIGN.md §11); nothing is claimed for it"

ALL = ["C%02d" % i for i in range(1, 21)]


def main():
    checks = []
    for pid in ALL:
        if pid not in CLAIMS:
            continue
        oracle, text, ref = CLAIMS[pid]
        checks.append({
            "property_id": pid,
            "quick_cmd": "./check %s quick" % pid,
            "thorough_cmd": "./check %s thorough" % pid,
            "evidence_file": "evidence/%s.json" % pid,
            "replay_cmd_template": "./check replay {path}",
            "engine": "hsim",
            "level_claimed": {"category": "exploration", "text": text + " A clean batch is evidence, not proof.", "design_ref": "DESIGN.md " + ref},
            "level_note": "Trusted base: the simulator (simrt baton scheduler under testing/synctest, simgen source rewrite, simulated net.Conn), the reference model written from the property text, stubs for cmd/main.go wiring, net/http, TCP, HDS, NCS. Built with go1.26.8.",
            "technique": TECH + oracle,
        })
    na = []
    for pid in ALL:
        if pid in CLAIMS:
            continue
        na.append({"property_id": pid, "reason": NA.get(pid, PENDING)})
    m = {
        "version": 1,
        "setup_cmd": "./check setup",
        "hooks": {
            "guard": "verif",
            "enable": "no file in /repo is modified: every check invocation rewrites the current /repo working tree (go/ast, simgen) into /verif/.build/gen/, each generated file carrying //go:build verif, and compiles the engine against it with -tags verif",
            "baseline_off_cmd": "cd /repo && go test -json -vet=off -count=1 -timeout 25m ./...",
            "source_commits": [],
            "add_only": True,
        },
        "engines": [{"name": "hsim", "path": "hsim/", "serves_properties": sorted(CLAIMS), "kind_free_text": "deterministic whole-system simulator for hagall: real server code on a seeded scheduler (simrt), instrumented at check time (simgen), with simulated network, clock, clients and fault injection"}],
        "checks": checks,
        "not_applicable": na,
        "notes": "fix: commits in /repo repair genuine defects found by the checks; they are listed in known_findings.json (status fixed). See DESIGN.md.",
    }
    json.dump(m, open(os.path.join(HERE, "MANIFEST.json"), "w"), indent=1)
    print("claimed", len(checks), "not applicable / pending", len(na))


if __name__ == "__main__":
    main()
