#!/bin/bash
# usage: mutrun.sh <patch.diff> <PROP> [tier]   -- applies the patch to /repo, runs the check, reverts.
P=$1; PROP=$2; TIER=${3:-quick}
cd /repo || exit 2
if ! git apply --check "$P" 2>/dev/null; then echo "PATCH DOES NOT APPLY: $P"; git apply --check "$P"; exit 3; fi
git apply "$P"
cd /verif && ./check $PROP $TIER 2>&1 | tail -4
RC=${PIPESTATUS[0]}
cd /repo && git checkout -- . && git clean -fdq
echo "exit=$RC"
