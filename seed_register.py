#!/usr/bin/env python3
"""Copies confirmed mutants from /tmp/mutout/<id> into /verif/seeded/<id>/ (patch.diff, demo, meta.json)."""
import json, os, shutil, subprocess, sys, glob
base = subprocess.check_output(["git", "-C", "/repo", "rev-parse", "--short", "HEAD"], text=True).strip()
for d in sorted(glob.glob("/tmp/mutout/C[0-9][0-9]-[0-9]*")):
    mid = os.path.basename(d)
    if len(sys.argv) > 1 and mid not in sys.argv[1:]:
        continue
    r = subprocess.run(["/verif/confirm_mut.sh", d], capture_output=True, text=True)
    line = (r.stdout.strip().splitlines() or ["?"])[-1]
    if "CONFIRMED" not in line:
        print(mid, "NOT CONFIRMED:", line)
        continue
    dst = os.path.join("/verif/seeded", mid)
    os.makedirs(dst, exist_ok=True)
    shutil.copy(os.path.join(d, "patch.diff"), os.path.join(dst, "patch.diff"))
    for f in glob.glob(os.path.join(d, "*_test.go")):
        shutil.copy(f, os.path.join(dst, os.path.basename(f) + ".txt"))  # .txt: not picked up by any go build
    meta = json.load(open(os.path.join(d, "meta.json")))
    meta["id"] = mid
    meta["applies_to_repo_commit"] = base
    meta["ported"] = os.path.exists(os.path.join(d, "patch.orig.diff"))
    meta["confirmed"] = {"by": "confirm_mut.sh in a scratch worktree of /repo", "demo_passes_without_patch": True, "suite_passes_with_patch": True, "demo_fails_with_patch": True, "line": line}
    old = {}
    mp = os.path.join(dst, "meta.json")
    if os.path.exists(mp):
        old = json.load(open(mp))
    if "detection" in old:
        meta["detection"] = old["detection"]
    json.dump(meta, open(mp, "w"), indent=1)
    print(mid, "registered")
