module hagallsim/simgen

go 1.25
