// simgen is the check-time instrumenter: it copies a Go module tree and rewrites the
// selected packages so that every source of scheduling nondeterminism goes through
// hagallsim/simrt. Each rewrite is a fixed syntactic template; nothing else is touched.
//
//	simgen -src DIR -dst DIR -module PATH [-instrument glob,glob] [-exclude-types a,b] [-skip-dirs a,b]
//
// Exit status 2 on any failure (never a property violation).
package main

import (
	"bytes"
	"flag"
	"fmt"
	"go/ast"
	"go/format"
	"go/parser"
	"go/printer"
	"go/token"
	"go/types"
	"io"
	"os"
	"path/filepath"
	"reflect"
	"sort"
	"strings"
)

var (
	srcDir     = flag.String("src", "", "source module root")
	dstDir     = flag.String("dst", "", "destination root")
	modPath    = flag.String("module", "", "module path of the tree")
	instrument = flag.String("instrument", "**", "comma separated file globs (relative, slash) to instrument; ** = every non-test .go file")
	exclTypes  = flag.String("exclude-types", "", "type names whose declarations are left untouched")
	skipDirs   = flag.String("skip-dirs", "", "relative directories copied verbatim")
	report     = flag.String("report", "", "write a JSON-ish report of rewrites here")
	stmtPoints = flag.String("stmt-points", "", "comma separated file globs: a scheduling point (simrt.Point) is inserted before every statement of these files (statement-level instead of lock-level interleaving)")
)

func fatal(format string, a ...any) {
	fmt.Fprintf(os.Stderr, "simgen: "+format+"\n", a...)
	os.Exit(2)
}

func main() {
	flag.Parse()
	if *srcDir == "" || *dstDir == "" || *modPath == "" {
		fatal("need -src -dst -module")
	}
	g := &gen{
		fset:    token.NewFileSet(),
		pkgs:    map[string]*pkgInfo{},
		excl:    map[string]bool{},
		counts:  map[string]int{},
		unknown: nil,
	}
	for _, t := range strings.Split(*exclTypes, ",") {
		if t != "" {
			g.excl[t] = true
		}
	}
	var skips []string
	for _, d := range strings.Split(*skipDirs, ",") {
		if d != "" {
			skips = append(skips, filepath.ToSlash(d))
		}
	}
	globs := strings.Split(*instrument, ",")

	err := filepath.Walk(*srcDir, func(p string, fi os.FileInfo, err error) error {
		if err != nil {
			return err
		}
		rel, _ := filepath.Rel(*srcDir, p)
		rel = filepath.ToSlash(rel)
		if fi.IsDir() {
			if fi.Name() == ".git" {
				return filepath.SkipDir
			}
			return os.MkdirAll(filepath.Join(*dstDir, rel), 0o755)
		}
		if !fi.Mode().IsRegular() {
			return nil
		}
		if strings.HasSuffix(rel, "_test.go") {
			return nil
		}
		want := strings.HasSuffix(rel, ".go") && matchAny(globs, rel)
		for _, s := range skips {
			if rel == s || strings.HasPrefix(rel, s+"/") {
				want = false
			}
		}
		if !want {
			return copyFile(p, filepath.Join(*dstDir, rel))
		}
		out, err := g.rewriteFile(p, rel)
		if err != nil {
			return fmt.Errorf("%s: %w", rel, err)
		}
		return os.WriteFile(filepath.Join(*dstDir, rel), out, 0o644)
	})
	if err != nil {
		fatal("%v", err)
	}
	if len(g.audit) > 0 {
		for _, a := range g.audit {
			fmt.Fprintln(os.Stderr, "simgen: audit:", a)
		}
		os.Exit(2)
	}
	if *report != "" {
		var b bytes.Buffer
		keys := make([]string, 0, len(g.counts))
		for k := range g.counts {
			keys = append(keys, k)
		}
		sort.Strings(keys)
		for _, k := range keys {
			fmt.Fprintf(&b, "%s %d\n", k, g.counts[k])
		}
		for _, u := range g.unknown {
			fmt.Fprintf(&b, "unknown-range %s\n", u)
		}
		os.WriteFile(*report, b.Bytes(), 0o644)
	}
}

func matchAny(globs []string, rel string) bool {
	for _, g := range globs {
		if g == "**" {
			return true
		}
		if ok, _ := filepath.Match(g, rel); ok {
			return true
		}
		if strings.HasSuffix(g, "/**") && strings.HasPrefix(rel, strings.TrimSuffix(g, "**")) {
			return true
		}
	}
	return false
}

func copyFile(src, dst string) error {
	in, err := os.Open(src)
	if err != nil {
		return err
	}
	defer in.Close()
	out, err := os.Create(dst)
	if err != nil {
		return err
	}
	defer out.Close()
	_, err = io.Copy(out, in)
	return err
}

// ---------------------------------------------------------------------------------------------
// tolerant type information: packages of this module are checked from source, everything
// else is an empty stub. That is enough to know which `range` operands are maps declared in
// this module (all of them are), without compiling the dependency graph.

type pkgInfo struct {
	pkg   *types.Package
	info  *types.Info
	files map[string]*ast.File // by absolute path
}

type gen struct {
	fset    *token.FileSet
	pkgs    map[string]*pkgInfo // by dir
	excl    map[string]bool
	counts  map[string]int
	unknown []string
	audit   []string
	loading map[string]bool
}

func (g *gen) Import(path string) (*types.Package, error) {
	if path == "unsafe" {
		return types.Unsafe, nil
	}
	if path == *modPath || strings.HasPrefix(path, *modPath+"/") {
		dir := filepath.Join(*srcDir, strings.TrimPrefix(strings.TrimPrefix(path, *modPath), "/"))
		pi, err := g.load(dir)
		if err != nil {
			return nil, err
		}
		return pi.pkg, nil
	}
	name := path
	if i := strings.LastIndex(name, "/"); i >= 0 {
		name = name[i+1:]
	}
	p := types.NewPackage(path, name)
	p.MarkComplete()
	return p, nil
}

func (g *gen) load(dir string) (*pkgInfo, error) {
	if pi, ok := g.pkgs[dir]; ok {
		return pi, nil
	}
	if g.loading == nil {
		g.loading = map[string]bool{}
	}
	if g.loading[dir] {
		return nil, fmt.Errorf("import cycle through %s", dir)
	}
	g.loading[dir] = true
	defer delete(g.loading, dir)
	ents, err := os.ReadDir(dir)
	if err != nil {
		return nil, err
	}
	pi := &pkgInfo{files: map[string]*ast.File{}}
	var files []*ast.File
	for _, e := range ents {
		n := e.Name()
		if e.IsDir() || !strings.HasSuffix(n, ".go") || strings.HasSuffix(n, "_test.go") {
			continue
		}
		p := filepath.Join(dir, n)
		f, err := parser.ParseFile(g.fset, p, nil, parser.SkipObjectResolution)
		if err != nil {
			return nil, err
		}
		pi.files[p] = f
		files = append(files, f)
	}
	pi.info = &types.Info{Types: map[ast.Expr]types.TypeAndValue{}}
	conf := types.Config{Importer: g, Error: func(error) {}, FakeImportC: true}
	rel, _ := filepath.Rel(*srcDir, dir)
	pi.pkg, _ = conf.Check(filepath.ToSlash(filepath.Join(*modPath, rel)), g.fset, files, pi.info)
	g.pkgs[dir] = pi
	return pi, nil
}

// ---------------------------------------------------------------------------------------------

type rewriter struct {
	g       *gen
	rel     string
	info    *types.Info
	changed bool
	mapRng  map[*ast.RangeStmt]bool
}

var syncMap = map[string]string{"Mutex": "Mutex", "RWMutex": "RWMutex", "Once": "Once", "WaitGroup": "WaitGroup", "Cond": "Cond", "NewCond": "NewCond"}
var timeMap = map[string]string{"Timer": "Timer", "Ticker": "Ticker", "NewTimer": "NewTimer", "NewTicker": "NewTicker",
	"After": "After", "AfterFunc": "AfterFunc", "Sleep": "Sleep", "Tick": "Tick"}
// sync.Map is left alone: its operations never block, so they are atomic with respect to the
// simulated scheduler (only the order of Range is not under the seed's control).
var syncForbidden = map[string]bool{}

func (g *gen) rewriteFile(path, rel string) ([]byte, error) {
	pi, err := g.load(filepath.Dir(path))
	if err != nil {
		return nil, err
	}
	f := pi.files[path]
	if f == nil {
		return nil, fmt.Errorf("not parsed")
	}
	r := &rewriter{g: g, rel: rel, info: pi.info, mapRng: map[*ast.RangeStmt]bool{}}
	r.walk(reflect.ValueOf(f).Elem())
	if *stmtPoints != "" && matchAny(strings.Split(*stmtPoints, ","), rel) {
		r.insertPoints(f)
	}
	if !r.changed {
		return os.ReadFile(path)
	}
	// imports: add simrt, drop sync/time when no longer used.
	used := map[string]bool{}
	ast.Inspect(f, func(n ast.Node) bool {
		if se, ok := n.(*ast.SelectorExpr); ok {
			if id, ok := se.X.(*ast.Ident); ok {
				used[id.Name] = true
			}
		}
		return true
	})
	for _, d := range f.Decls {
		gd, ok := d.(*ast.GenDecl)
		if !ok || gd.Tok != token.IMPORT {
			continue
		}
		var specs []ast.Spec
		for _, s := range gd.Specs {
			is := s.(*ast.ImportSpec)
			p := strings.Trim(is.Path.Value, `"`)
			if (p == "sync" || p == "time") && is.Name == nil && !used[p] {
				continue
			}
			specs = append(specs, s)
		}
		gd.Specs = specs
	}
	imp := &ast.GenDecl{Tok: token.IMPORT, Specs: []ast.Spec{&ast.ImportSpec{Name: ast.NewIdent("simrt"), Path: &ast.BasicLit{Kind: token.STRING, Value: `"hagallsim/simrt"`}}}}
	f.Decls = append([]ast.Decl{imp}, f.Decls...)
	f.Comments = nil
	f.Doc = nil
	// audit what is left
	ast.Inspect(f, func(n ast.Node) bool {
		switch x := n.(type) {
		case *ast.GoStmt:
			g.audit = append(g.audit, fmt.Sprintf("%s: go statement left", r.pos(x)))
		case *ast.SelectStmt:
			g.audit = append(g.audit, fmt.Sprintf("%s: select left", r.pos(x)))
		case *ast.SendStmt:
			g.audit = append(g.audit, fmt.Sprintf("%s: send left", r.pos(x)))
		case *ast.UnaryExpr:
			if x.Op == token.ARROW {
				g.audit = append(g.audit, fmt.Sprintf("%s: receive left", r.pos(x)))
			}
		}
		return true
	})
	var buf bytes.Buffer
	buf.WriteString("//go:build verif\n\n// Code generated by simgen from " + rel + "; DO NOT EDIT.\n\n")
	var body bytes.Buffer
	if err := format.Node(&body, token.NewFileSet(), f); err != nil {
		var raw bytes.Buffer
		printer.Fprint(&raw, token.NewFileSet(), f)
		os.WriteFile("/tmp/simgen-failed.go", raw.Bytes(), 0o644)
		return nil, err
	}
	buf.Write(body.Bytes())
	return buf.Bytes(), nil
}

func (r *rewriter) pos(n ast.Node) string {
	p := r.g.fset.Position(n.Pos())
	return fmt.Sprintf("%s:%d", r.rel, p.Line)
}

func (r *rewriter) site(n ast.Node) ast.Expr {
	return &ast.BasicLit{Kind: token.STRING, Value: fmt.Sprintf("%q", r.pos(n))}
}

func simrtCall(fn string, args ...ast.Expr) *ast.CallExpr {
	return &ast.CallExpr{Fun: &ast.SelectorExpr{X: ast.NewIdent("simrt"), Sel: ast.NewIdent(fn)}, Args: args}
}

func (r *rewriter) count(k string) { r.g.counts[k]++; r.changed = true }

var nodeType = reflect.TypeOf((*ast.Node)(nil)).Elem()

// walk rewrites in place. Interface-typed slots can be replaced.
func (r *rewriter) walk(v reflect.Value) {
	switch v.Kind() {
	case reflect.Interface:
		if v.IsNil() {
			return
		}
		n, ok := v.Interface().(ast.Node)
		if !ok {
			return
		}
		if rep, done := r.pre(n); done {
			if rep != nil {
				v.Set(reflect.ValueOf(rep))
			}
			return
		}
		r.walk(v.Elem())
		if rep := r.post(v.Interface().(ast.Node)); rep != nil {
			v.Set(reflect.ValueOf(rep))
		}
	case reflect.Ptr:
		if v.IsNil() {
			return
		}
		if n, ok := v.Interface().(ast.Node); ok && v.CanSet() {
			// concrete pointer slot (e.g. *ast.BlockStmt): pre/post cannot replace, only visit
			if _, done := r.pre(n); done {
				return
			}
		}
		r.walk(v.Elem())
	case reflect.Struct:
		t := v.Type()
		for i := 0; i < v.NumField(); i++ {
			if t.Field(i).Name == "Obj" || t.Field(i).Name == "Scope" || t.Field(i).Name == "Unresolved" || t.Field(i).Name == "Comments" || t.Field(i).Name == "Doc" || t.Field(i).Name == "Comment" {
				continue
			}
			r.walk(v.Field(i))
		}
	case reflect.Slice:
		for i := 0; i < v.Len(); i++ {
			r.walk(v.Index(i))
		}
	}
}

func (r *rewriter) walkExpr(e *ast.Expr) { r.walk(reflect.ValueOf(e).Elem()) }
func (r *rewriter) walkStmts(l []ast.Stmt) {
	for i := range l {
		r.walk(reflect.ValueOf(&l[i]).Elem())
	}
}

func isArrow(e ast.Expr) (*ast.UnaryExpr, bool) {
	for {
		if p, ok := e.(*ast.ParenExpr); ok {
			e = p.X
			continue
		}
		break
	}
	u, ok := e.(*ast.UnaryExpr)
	return u, ok && u.Op == token.ARROW
}

func (r *rewriter) pre(n ast.Node) (ast.Node, bool) {
	switch x := n.(type) {
	case *ast.TypeSpec:
		if r.g.excl[x.Name.Name] {
			return nil, true
		}
	case *ast.FuncDecl:
		// methods of excluded types are left alone too
		if x.Recv != nil && len(x.Recv.List) == 1 {
			t := x.Recv.List[0].Type
			if s, ok := t.(*ast.StarExpr); ok {
				t = s.X
			}
			if id, ok := t.(*ast.Ident); ok && r.g.excl[id.Name] {
				return nil, true
			}
		}
	case *ast.ValueSpec:
		// `var x = excludedType{...}` keeps its sync types
		for _, v := range x.Values {
			if cl, ok := v.(*ast.CompositeLit); ok {
				if id, ok := cl.Type.(*ast.Ident); ok && r.g.excl[id.Name] {
					return nil, true
				}
			}
		}
	case *ast.SelectStmt:
		return r.selectStmt(x), true
	case *ast.GoStmt:
		return r.goStmt(x), true
	case *ast.AssignStmt:
		if len(x.Lhs) == 2 && len(x.Rhs) == 1 {
			if u, ok := isArrow(x.Rhs[0]); ok {
				r.walkExpr(&u.X)
				for i := range x.Lhs {
					r.walkExpr(&x.Lhs[i])
				}
				x.Rhs[0] = simrtCall("Recv2", r.site(u), u.X)
				r.count("recv")
				return x, true
			}
		}
	case *ast.RangeStmt:
		if tv, ok := r.info.Types[x.X]; ok && tv.Type != nil {
			switch u := tv.Type.Underlying().(type) {
			case *types.Map:
				if b, ok := u.Key().Underlying().(*types.Basic); ok && b.Info()&types.IsOrdered != 0 {
					r.mapRng[x] = true
				} else {
					r.g.counts["range-unordered-map-key"]++
				}
			case *types.Chan:
				r.g.audit = append(r.g.audit, fmt.Sprintf("%s: range over channel is not supported by the instrumenter", r.pos(x)))
			case *types.Basic:
				if u.Kind() == types.Invalid {
					r.g.unknown = append(r.g.unknown, r.pos(x))
				}
			}
		} else {
			r.g.unknown = append(r.g.unknown, r.pos(x))
		}
	}
	return nil, false
}

func (r *rewriter) post(n ast.Node) ast.Node {
	switch x := n.(type) {
	case *ast.SendStmt:
		r.count("send")
		return &ast.ExprStmt{X: simrtCall("Send", r.site(x), x.Chan, x.Value)}
	case *ast.UnaryExpr:
		if x.Op == token.ARROW {
			r.count("recv")
			return simrtCall("Recv", r.site(x), x.X)
		}
	case *ast.RangeStmt:
		if r.mapRng[x] {
			r.count("range-map")
			x.X = simrtCall("RangeMap", r.site(x), x.X)
		}
	case *ast.SelectorExpr:
		id, ok := x.X.(*ast.Ident)
		if !ok {
			return nil
		}
		switch id.Name {
		case "sync":
			if to, ok := syncMap[x.Sel.Name]; ok {
				r.count("sync." + x.Sel.Name)
				return &ast.SelectorExpr{X: ast.NewIdent("simrt"), Sel: ast.NewIdent(to)}
			}
			if syncForbidden[x.Sel.Name] {
				r.g.audit = append(r.g.audit, fmt.Sprintf("%s: sync.%s is not modelled", r.pos(x), x.Sel.Name))
			}
		case "time":
			if to, ok := timeMap[x.Sel.Name]; ok {
				r.count("time." + x.Sel.Name)
				return &ast.SelectorExpr{X: ast.NewIdent("simrt"), Sel: ast.NewIdent(to)}
			}
		}
	}
	return nil
}

func (r *rewriter) goStmt(g *ast.GoStmt) ast.Stmt {
	r.count("go")
	call := g.Call
	r.walkExpr(&call.Fun)
	for i := range call.Args {
		r.walkExpr(&call.Args[i])
	}
	callee := "func"
	switch f := call.Fun.(type) {
	case *ast.SelectorExpr:
		callee = f.Sel.Name
	case *ast.Ident:
		callee = f.Name
	}
	gsite := &ast.BasicLit{Kind: token.STRING, Value: fmt.Sprintf("%q", r.pos(g)+" "+callee)}
	if fl, ok := call.Fun.(*ast.FuncLit); ok && len(call.Args) == 0 {
		return &ast.ExprStmt{X: simrtCall("Go", gsite, fl)}
	}
	lhs := []ast.Expr{ast.NewIdent("_gf")}
	rhs := []ast.Expr{call.Fun}
	var args []ast.Expr
	for i, a := range call.Args {
		id := ast.NewIdent(fmt.Sprintf("_ga%d", i))
		lhs = append(lhs, id)
		rhs = append(rhs, a)
		args = append(args, ast.NewIdent(id.Name))
	}
	inner := &ast.CallExpr{Fun: ast.NewIdent("_gf"), Args: args, Ellipsis: call.Ellipsis}
	if call.Ellipsis.IsValid() {
		inner.Ellipsis = 1
	}
	return &ast.BlockStmt{List: []ast.Stmt{
		&ast.AssignStmt{Lhs: lhs, Tok: token.DEFINE, Rhs: rhs},
		&ast.ExprStmt{X: simrtCall("Go", gsite, &ast.FuncLit{
			Type: &ast.FuncType{Params: &ast.FieldList{}},
			Body: &ast.BlockStmt{List: []ast.Stmt{&ast.ExprStmt{X: inner}}},
		})},
	}}
}

func (r *rewriter) selectStmt(s *ast.SelectStmt) ast.Stmt {
	r.count("select")
	sel := ast.NewIdent("_sel")
	stmts := []ast.Stmt{&ast.AssignStmt{Lhs: []ast.Expr{sel}, Tok: token.DEFINE, Rhs: []ast.Expr{simrtCall("NewSel", r.site(s))}}}
	sw := &ast.SwitchStmt{Tag: &ast.CallExpr{Fun: &ast.SelectorExpr{X: ast.NewIdent("_sel"), Sel: ast.NewIdent("Wait")}}, Body: &ast.BlockStmt{}}
	idx := 0
	hasDefault := false
	for _, c := range s.Body.List {
		cc := c.(*ast.CommClause)
		r.walkStmts(cc.Body)
		var pre []ast.Stmt
		var label ast.Expr
		if cc.Comm == nil {
			stmts = append(stmts, &ast.ExprStmt{X: &ast.CallExpr{Fun: &ast.SelectorExpr{X: ast.NewIdent("_sel"), Sel: ast.NewIdent("Default")}}})
			label = nil
			hasDefault = true
		} else {
			label = &ast.BasicLit{Kind: token.INT, Value: fmt.Sprint(idx)}
			slot := fmt.Sprintf("_c%d", idx)
			switch cm := cc.Comm.(type) {
			case *ast.SendStmt:
				r.walkExpr(&cm.Chan)
				r.walkExpr(&cm.Value)
				stmts = append(stmts, &ast.ExprStmt{X: simrtCall("SelSend", ast.NewIdent("_sel"), cm.Chan, cm.Value)})
			case *ast.ExprStmt:
				u, ok := isArrow(cm.X)
				if !ok {
					r.g.audit = append(r.g.audit, fmt.Sprintf("%s: unsupported select case", r.pos(cm)))
					continue
				}
				r.walkExpr(&u.X)
				stmts = append(stmts, &ast.ExprStmt{X: simrtCall("SelRecv", ast.NewIdent("_sel"), u.X)})
			case *ast.AssignStmt:
				u, ok := isArrow(cm.Rhs[0])
				if !ok {
					r.g.audit = append(r.g.audit, fmt.Sprintf("%s: unsupported select case", r.pos(cm)))
					continue
				}
				r.walkExpr(&u.X)
				stmts = append(stmts, &ast.AssignStmt{Lhs: []ast.Expr{ast.NewIdent(slot)}, Tok: token.DEFINE, Rhs: []ast.Expr{simrtCall("SelRecv", ast.NewIdent("_sel"), u.X)}})
				rhs := []ast.Expr{&ast.SelectorExpr{X: ast.NewIdent(slot), Sel: ast.NewIdent("Val")}}
				if len(cm.Lhs) == 2 {
					rhs = append(rhs, &ast.SelectorExpr{X: ast.NewIdent(slot), Sel: ast.NewIdent("Ok")})
				}
				pre = append(pre, &ast.AssignStmt{Lhs: cm.Lhs, Tok: cm.Tok, Rhs: rhs})
				// a slot whose value the body ignores must still count as used
				pre = append(pre, &ast.AssignStmt{Lhs: []ast.Expr{ast.NewIdent("_")}, Tok: token.ASSIGN, Rhs: []ast.Expr{ast.NewIdent(slot)}})
			}
			idx++
		}
		var labels []ast.Expr
		if label != nil {
			labels = []ast.Expr{label}
		}
		sw.Body.List = append(sw.Body.List, &ast.CaseClause{List: labels, Body: append(pre, cc.Body...)})
	}
	if !hasDefault {
		// keeps the statement terminating when every case returns, as the select was
		sw.Body.List = append(sw.Body.List, &ast.CaseClause{Body: []ast.Stmt{&ast.ExprStmt{X: &ast.CallExpr{Fun: ast.NewIdent("panic"), Args: []ast.Expr{&ast.BasicLit{Kind: token.STRING, Value: `"simrt: select index"`}}}}}})
	}
	stmts = append(stmts, sw)
	return &ast.BlockStmt{List: stmts}
}

// insertPoints puts simrt.Point("file:line") before every statement of every function body,
// case clause and nested block of the file.
func (r *rewriter) insertPoints(f *ast.File) {
	var withPoints func(list []ast.Stmt) []ast.Stmt
	withPoints = func(list []ast.Stmt) []ast.Stmt {
		out := make([]ast.Stmt, 0, 2*len(list))
		for _, st := range list {
			_, isCase := st.(*ast.CaseClause)
			_, isComm := st.(*ast.CommClause)
			if _, isDecl := st.(*ast.DeclStmt); !isDecl && !isCase && !isComm && st.Pos().IsValid() {
				if _, isEmpty := st.(*ast.EmptyStmt); !isEmpty {
					call := simrtCall("Point", r.site(st))
					if se, ok := call.Fun.(*ast.SelectorExpr); ok {
						if id, ok := se.X.(*ast.Ident); ok {
							id.NamePos = st.Pos()
						}
						se.Sel.NamePos = st.Pos()
					}
					call.Lparen, call.Rparen = st.Pos(), st.Pos()
					if bl, ok := call.Args[0].(*ast.BasicLit); ok {
						bl.ValuePos = st.Pos()
					}
					out = append(out, &ast.ExprStmt{X: call})
					r.count("stmt_point")
				}
			}
			out = append(out, st)
		}
		return out
	}
	ast.Inspect(f, func(n ast.Node) bool {
		switch x := n.(type) {
		case *ast.BlockStmt:
			if x.Lbrace.IsValid() && x.Rbrace.IsValid() && r.g.fset.Position(x.Lbrace).Line == r.g.fset.Position(x.Rbrace).Line {
				return true // a one-line body: the printer would keep it on one line
			}
			x.List = withPoints(x.List)
		case *ast.CaseClause:
			x.Body = withPoints(x.Body)
		case *ast.CommClause:
			x.Body = withPoints(x.Body)
		}
		return true
	})
}
