package simrt

import (
	"reflect"
	"runtime"
)

// The generic functions below are instantiated (and race-instrumented) in the caller's package:
// they touch nothing of the simulator's state themselves; everything goes through the
// non-generic helpers, which are compiled //go:norace.

const (
	modePlain   = 0 // no simulation, or Inspect
	modeKilling = 1
	modeSim     = 2
)

// chanEnter is the scheduling point in front of a channel operation.
//
//go:norace
func chanEnter(site string) (*Sim, *Task, int) {
	s := cur()
	if s == nil || s.inspect {
		return s, nil, modePlain
	}
	if s.killing {
		return s, s.current, modeKilling
	}
	t := s.self("chan@" + site)
	s.yield(site)
	return s, t, modeSim
}

//go:norace
func chanBlock(s *Sim, t *Task, site string, send bool) <-chan struct{} {
	if send {
		s.Stats["chan_send_blocked"]++
		s.Stats["blocked@"+site]++
	}
	s.enterNative(t)
	return t.kill
}

//go:norace
func chanUnblock(s *Sim, t *Task) { s.exitNative(t) }

// Send is what `ch <- v` becomes.
func Send[T any](site string, ch chan<- T, v T) {
	s, t, mode := chanEnter(site)
	switch mode {
	case modePlain:
		ch <- v
		return
	case modeKilling:
		select {
		case ch <- v:
		default:
			runtime.Goexit()
		}
		return
	}
	select {
	case ch <- v:
		return
	default:
	}
	kill := chanBlock(s, t, site, true)
	select {
	case ch <- v:
	case <-kill:
		runtime.Goexit()
	}
	chanUnblock(s, t)
}

// Recv2 is what `v, ok := <-ch` becomes.
func Recv2[T any](site string, ch <-chan T) (T, bool) {
	s, t, mode := chanEnter(site)
	switch mode {
	case modePlain:
		v, ok := <-ch
		return v, ok
	case modeKilling:
		select {
		case v, ok := <-ch:
			return v, ok
		default:
			runtime.Goexit()
		}
	}
	select {
	case v, ok := <-ch:
		return v, ok
	default:
	}
	kill := chanBlock(s, t, site, false)
	var v T
	var ok bool
	select {
	case v, ok = <-ch:
	case <-kill:
		runtime.Goexit()
	}
	chanUnblock(s, t)
	return v, ok
}

// Recv is what `<-ch` becomes.
func Recv[T any](site string, ch <-chan T) T {
	v, _ := Recv2(site, ch)
	return v
}

// Sel is a select statement under construction. The simulator, not the Go runtime, decides
// which of several ready cases fires.
type Sel struct {
	site   string
	cases  []reflect.SelectCase
	slots  []func(reflect.Value, bool)
	hasDef bool
}

func NewSel(site string) *Sel { return &Sel{site: site} }

type RecvSlot[T any] struct {
	Val T
	Ok  bool
}

func SelRecv[T any](s *Sel, ch <-chan T) *RecvSlot[T] {
	slot := &RecvSlot[T]{}
	s.cases = append(s.cases, reflect.SelectCase{Dir: reflect.SelectRecv, Chan: reflect.ValueOf(ch)})
	s.slots = append(s.slots, func(v reflect.Value, ok bool) {
		slot.Ok = ok
		if ok {
			slot.Val = v.Interface().(T)
		} else if v.IsValid() {
			slot.Val, _ = v.Interface().(T)
		}
	})
	return slot
}

func SelSend[T any](s *Sel, ch chan<- T, v T) {
	s.cases = append(s.cases, reflect.SelectCase{Dir: reflect.SelectSend, Chan: reflect.ValueOf(ch), Send: reflect.ValueOf(&v).Elem()})
	s.slots = append(s.slots, nil)
}

func (s *Sel) Default() { s.hasDef = true }

var defaultCase = reflect.SelectCase{Dir: reflect.SelectDefault}

func (s *Sel) try(i int) bool {
	if !s.cases[i].Chan.IsValid() || s.cases[i].Chan.IsNil() {
		return false
	}
	chosen, v, ok := reflect.Select([]reflect.SelectCase{s.cases[i], defaultCase})
	if chosen != 0 {
		return false
	}
	if s.slots[i] != nil {
		s.slots[i](v, ok)
	}
	return true
}

// selOrder: the scheduling point of a select and the order in which its cases are tried.
//
//go:norace
func selOrder(site string, s *Sel) (*Sim, *Task, int, []int) {
	sim, t, mode := chanEnter(site)
	if mode != modeSim {
		return sim, t, mode, nil
	}
	n := len(s.cases)
	order := sim.selr.Perm(n)
	if sim.cfg.Policy == "seq" || sim.cfg.SelectOrder == "source" {
		for i := range order {
			order[i] = i
		}
	} else if sim.cfg.SelectOrder == "reverse" {
		for i := range order {
			order[i] = n - 1 - i
		}
	}
	ready := 0
	for i := 0; i < n; i++ {
		c := s.cases[i]
		if c.Chan.IsValid() && !c.Chan.IsNil() && c.Dir == reflect.SelectRecv && c.Chan.Len() > 0 {
			ready++
		}
	}
	if ready >= 2 {
		sim.Stats["probe.select_multi_ready"]++
	}
	return sim, t, mode, order
}

// Wait returns the index of the case that fired, or -1 for default.
func (s *Sel) Wait() int {
	sim, t, mode, order := selOrder(s.site, s)
	n := len(s.cases)
	if mode != modeSim {
		for i := 0; i < n; i++ {
			if s.try(i) {
				return i
			}
		}
		if s.hasDef {
			return -1
		}
		if mode == modeKilling {
			runtime.Goexit()
		}
		chosen, v, ok := reflect.Select(s.cases)
		if s.slots[chosen] != nil {
			s.slots[chosen](v, ok)
		}
		return chosen
	}
	for _, i := range order {
		if s.try(i) {
			return i
		}
	}
	if s.hasDef {
		return -1
	}
	kill := chanBlock(sim, t, s.site, false)
	cases := append(append([]reflect.SelectCase(nil), s.cases...), reflect.SelectCase{Dir: reflect.SelectRecv, Chan: reflect.ValueOf(kill)})
	chosen, v, ok := reflect.Select(cases)
	if chosen == n {
		runtime.Goexit()
	}
	chanUnblock(sim, t)
	if s.slots[chosen] != nil {
		s.slots[chosen](v, ok)
	}
	return chosen
}
