package simrt

import (
	"reflect"
	"runtime"
)

// Send is what `ch <- v` becomes.
func Send[T any](site string, ch chan<- T, v T) {
	s := cur()
	if s == nil || s.inspect {
		ch <- v
		return
	}
	if s.killing {
		select {
		case ch <- v:
		default:
			runtime.Goexit()
		}
		return
	}
	t := s.self("send@" + site)
	s.yield(site)
	select {
	case ch <- v:
		return
	default:
	}
	s.Stats["chan_send_blocked"]++
	s.Stats["blocked@"+site]++
	s.enterNative(t)
	select {
	case ch <- v:
	case <-t.kill:
		runtime.Goexit()
	}
	s.exitNative(t)
}

// Recv2 is what `v, ok := <-ch` becomes.
func Recv2[T any](site string, ch <-chan T) (T, bool) {
	s := cur()
	if s == nil || s.inspect {
		v, ok := <-ch
		return v, ok
	}
	if s.killing {
		select {
		case v, ok := <-ch:
			return v, ok
		default:
			runtime.Goexit()
		}
	}
	t := s.self("recv@" + site)
	s.yield(site)
	select {
	case v, ok := <-ch:
		return v, ok
	default:
	}
	s.enterNative(t)
	var v T
	var ok bool
	select {
	case v, ok = <-ch:
	case <-t.kill:
		runtime.Goexit()
	}
	s.exitNative(t)
	return v, ok
}

// Recv is what `<-ch` becomes.
func Recv[T any](site string, ch <-chan T) T {
	v, _ := Recv2(site, ch)
	return v
}

// Sel is a select statement under construction. The simulator, not the Go runtime, decides
// which of several ready cases fires.
type Sel struct {
	site   string
	cases  []reflect.SelectCase
	slots  []func(reflect.Value, bool)
	hasDef bool
}

func NewSel(site string) *Sel { return &Sel{site: site} }

type RecvSlot[T any] struct {
	Val T
	Ok  bool
}

func SelRecv[T any](s *Sel, ch <-chan T) *RecvSlot[T] {
	slot := &RecvSlot[T]{}
	s.cases = append(s.cases, reflect.SelectCase{Dir: reflect.SelectRecv, Chan: reflect.ValueOf(ch)})
	s.slots = append(s.slots, func(v reflect.Value, ok bool) {
		slot.Ok = ok
		if ok {
			slot.Val = v.Interface().(T)
		} else if v.IsValid() {
			slot.Val, _ = v.Interface().(T)
		}
	})
	return slot
}

func SelSend[T any](s *Sel, ch chan<- T, v T) {
	s.cases = append(s.cases, reflect.SelectCase{Dir: reflect.SelectSend, Chan: reflect.ValueOf(ch), Send: reflect.ValueOf(&v).Elem()})
	s.slots = append(s.slots, nil)
}

func (s *Sel) Default() { s.hasDef = true }

var defaultCase = reflect.SelectCase{Dir: reflect.SelectDefault}

func (s *Sel) try(i int) bool {
	if !s.cases[i].Chan.IsValid() || s.cases[i].Chan.IsNil() {
		return false
	}
	chosen, v, ok := reflect.Select([]reflect.SelectCase{s.cases[i], defaultCase})
	if chosen != 0 {
		return false
	}
	if s.slots[i] != nil {
		s.slots[i](v, ok)
	}
	return true
}

// Wait returns the index of the case that fired, or -1 for default.
func (s *Sel) Wait() int {
	sim := cur()
	n := len(s.cases)
	if sim == nil || sim.inspect || sim.killing {
		for i := 0; i < n; i++ {
			if s.try(i) {
				return i
			}
		}
		if s.hasDef {
			return -1
		}
		if sim != nil && sim.killing {
			runtime.Goexit()
		}
		chosen, v, ok := reflect.Select(s.cases)
		if s.slots[chosen] != nil {
			s.slots[chosen](v, ok)
		}
		return chosen
	}
	t := sim.self("select@" + s.site)
	sim.yield(s.site)
	order := sim.selr.Perm(n)
	if sim.cfg.Policy == "seq" || sim.cfg.SelectOrder == "source" {
		for i := range order {
			order[i] = i
		}
	} else if sim.cfg.SelectOrder == "reverse" {
		for i := range order {
			order[i] = n - 1 - i
		}
	}
	// probe: how many cases are ready (buffered receive side only, conservative)
	ready := 0
	for i := 0; i < n; i++ {
		c := s.cases[i]
		if c.Chan.IsValid() && !c.Chan.IsNil() && c.Dir == reflect.SelectRecv && c.Chan.Len() > 0 {
			ready++
		}
	}
	if ready >= 2 {
		sim.Stats["probe.select_multi_ready"]++
	}
	for _, i := range order {
		if s.try(i) {
			return i
		}
	}
	if s.hasDef {
		return -1
	}
	cases := append(append([]reflect.SelectCase(nil), s.cases...), reflect.SelectCase{Dir: reflect.SelectRecv, Chan: reflect.ValueOf(t.kill)})
	sim.enterNative(t)
	chosen, v, ok := reflect.Select(cases)
	if chosen == n {
		runtime.Goexit()
	}
	sim.exitNative(t)
	if s.slots[chosen] != nil {
		s.slots[chosen](v, ok)
	}
	return chosen
}
