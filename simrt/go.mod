module hagallsim/simrt

go 1.25
