package simrt

import (
	"runtime"
	"sync"
	"sync/atomic"
)

//go:norace
func newSiteCache() *sync.Map { return &sync.Map{} }

// Mutex replaces sync.Mutex in instrumented packages. The logical state lives in held; the
// embedded real mutex is only ever taken uncontended and exists so that the race detector sees
// the program's own happens-before edges.
type Mutex struct {
	held  bool
	owner *Task
	real  sync.Mutex
}

//go:norace
func (m *Mutex) Lock() {
	s := cur()
	if s == nil {
		m.real.Lock()
		m.held = true
		return
	}
	if s.inspect {
		if m.held {
			panic(inspectBusy{})
		}
		m.held = true
		m.real.Lock()
		return
	}
	if s.killing {
		if m.held {
			runtime.Goexit()
		}
		m.held = true
		m.real.Lock()
		return
	}
	t := s.self("Mutex.Lock")
	s.yield(callerSite(2))
	if m.held {
		t.wantM = m
		s.Stats["lock_contended"]++
		s.park(t, stLockWait) // the scheduler acquires for us before waking
		t.wantM = nil
	} else {
		m.held = true
		m.owner = t
	}
	t.held++
	m.real.Lock()
}

//go:norace
func (m *Mutex) TryLock() bool {
	if m.held {
		return false
	}
	m.held = true
	if s := cur(); s != nil && !s.inspect && !s.killing {
		m.owner = s.current
		if m.owner != nil {
			m.owner.held++
		}
	}
	m.real.Lock()
	return true
}

//go:norace
func (m *Mutex) Unlock() {
	if !m.held {
		panic("sync: unlock of unlocked mutex")
	}
	if m.owner != nil {
		m.owner.held--
	}
	m.owner = nil
	m.held = false
	m.real.Unlock()
	afterUnlock(callerFunc(2))
}

// RWMutex replaces sync.RWMutex with Go's semantics: a waiting writer blocks new readers;
// a writer's Unlock releases every reader that was blocked at that moment.
type RWMutex struct {
	writer         bool
	readers        int
	writersWaiting int
	real           sync.RWMutex
}

//go:norace
func (m *RWMutex) Lock() {
	s := cur()
	if s == nil {
		m.real.Lock()
		m.writer = true
		return
	}
	if s.inspect {
		if m.writer || m.readers > 0 {
			panic(inspectBusy{})
		}
		m.writer = true
		m.real.Lock()
		return
	}
	if s.killing {
		if m.writer || m.readers > 0 {
			runtime.Goexit()
		}
		m.writer = true
		m.real.Lock()
		return
	}
	t := s.self("RWMutex.Lock")
	s.yield(callerSite(2))
	if m.writer || m.readers > 0 {
		m.writersWaiting++
		t.wantRW, t.wantW = m, true
		s.Stats["lock_contended"]++
		if m.readers > 0 {
			s.Stats["probe.writer_waits_for_readers"]++
		}
		s.park(t, stLockWait)
		t.wantRW = nil
	} else {
		m.writer = true
	}
	t.held++
	m.real.Lock()
}

//go:norace
func (m *RWMutex) Unlock() {
	if !m.writer {
		panic("sync: Unlock of unlocked RWMutex")
	}
	m.writer = false
	m.real.Unlock()
	s := cur()
	if s == nil || s.inspect {
		return
	}
	if s.current != nil {
		s.current.held--
	}
	// release every reader blocked right now, as sync.RWMutex does.
	for _, t := range s.tasks {
		if t.st() == stLockWait && t.wantRW == m && !t.wantW && !t.grant {
			t.grant = true
			m.readers++
		}
	}
	afterUnlock(callerFunc(2))
}

//go:norace
func (m *RWMutex) RLock() {
	s := cur()
	if s == nil {
		m.real.RLock()
		m.readers++
		return
	}
	if s.inspect {
		if m.writer {
			panic(inspectBusy{})
		}
		m.readers++
		m.real.RLock()
		return
	}
	if s.killing {
		if m.writer {
			runtime.Goexit()
		}
		m.readers++
		m.real.RLock()
		return
	}
	t := s.self("RWMutex.RLock")
	s.yield(callerSite(2))
	if m.writer || m.writersWaiting > 0 {
		t.wantRW, t.wantW = m, false
		s.Stats["lock_contended"]++
		if !m.writer {
			s.Stats["probe.reader_blocked_by_waiting_writer"]++
		}
		s.park(t, stLockWait)
		t.wantRW = nil
	} else {
		m.readers++
	}
	t.held++
	m.real.RLock()
}

//go:norace
func (m *RWMutex) RUnlock() {
	if m.readers <= 0 {
		panic("sync: RUnlock of unlocked RWMutex")
	}
	m.readers--
	m.real.RUnlock()
	if s := cur(); s != nil && !s.inspect && s.current != nil {
		s.current.held--
	}
	afterUnlock(callerFunc(2))
}

//go:norace
func (m *RWMutex) TryLock() bool {
	if m.writer || m.readers > 0 {
		return false
	}
	m.writer = true
	m.real.Lock()
	return true
}

//go:norace
func (m *RWMutex) TryRLock() bool {
	if m.writer || m.writersWaiting > 0 {
		return false
	}
	m.readers++
	m.real.RLock()
	return true
}

//go:norace
func (m *RWMutex) RLocker() sync.Locker { return (*rlocker)(m) }

type rlocker RWMutex

//go:norace
func (r *rlocker) Lock() { (*RWMutex)(r).RLock() }

//go:norace
func (r *rlocker) Unlock() { (*RWMutex)(r).RUnlock() }

// acquireFor performs the acquisition a parked task is waiting for (the lock is free).
//
//go:norace
func (s *Sim) acquireFor(t *Task) {
	if t.grant {
		t.grant = false
		return
	}
	if t.wantM != nil {
		t.wantM.held = true
		t.wantM.owner = t
		return
	}
	if t.wantRW != nil {
		if t.wantW {
			t.wantRW.writersWaiting--
			t.wantRW.writer = true
		} else {
			t.wantRW.readers++
		}
	}
}

// Once replaces sync.Once (whose internal mutex would otherwise block a second caller in a
// way the scheduler cannot see while the first caller is parked inside f).
type Once struct {
	done atomic.Bool // atomic: the fast path must give the happens-before edge sync.Once gives
	m    Mutex
}

//go:norace
func (o *Once) Do(f func()) {
	if o.done.Load() {
		return
	}
	o.m.Lock()
	defer o.m.Unlock()
	if !o.done.Load() {
		defer o.done.Store(true)
		f()
	}
}

// WaitGroup replaces sync.WaitGroup; Wait is a native blocking operation.
type WaitGroup struct {
	n    int
	ch   chan struct{}
	real sync.WaitGroup // never blocks: gives the race detector the Done -> Wait edge
}

//go:norace
func (w *WaitGroup) Add(d int) {
	w.real.Add(d)
	w.n += d
	if w.n < 0 {
		panic("sync: negative WaitGroup counter")
	}
	if w.n == 0 && w.ch != nil {
		close(w.ch)
		w.ch = nil
	}
}

//go:norace
func (w *WaitGroup) Done() { w.Add(-1) }

//go:norace
func (w *WaitGroup) Wait() {
	if s := cur(); s != nil && !s.inspect && !s.killing {
		s.yield(callerSite(2))
	}
	if w.n == 0 {
		w.real.Wait()
		return
	}
	if w.ch == nil {
		w.ch = make(chan struct{})
	}
	Block("WaitGroup.Wait", w.ch)
	w.real.Wait()
}

// Cond replaces sync.Cond: Wait is a native blocking operation the scheduler can see.
type Cond struct {
	L       sync.Locker
	waiters []chan struct{}
}

//go:norace
func NewCond(l sync.Locker) *Cond { return &Cond{L: l} }

//go:norace
func (c *Cond) Wait() {
	ch := make(chan struct{})
	c.waiters = append(c.waiters, ch)
	c.L.Unlock()
	Block("Cond.Wait", ch)
	c.L.Lock()
}

//go:norace
func (c *Cond) Signal() {
	if len(c.waiters) > 0 {
		close(c.waiters[0])
		c.waiters = c.waiters[1:]
	}
}

//go:norace
func (c *Cond) Broadcast() {
	for _, ch := range c.waiters {
		close(ch)
	}
	c.waiters = nil
}

// afterUnlock: with the configured probability releasing a lock is a scheduling point as well, so
// that what a task does with data it read under the lock can be overtaken by others.
//
//go:norace
func afterUnlock(site string) {
	s := cur()
	if s == nil || s.inspect || s.killing || s.cfg.UnlockYield <= 0 || s.current == nil {
		return
	}
	if s.unlockr.Bool(s.cfg.UnlockYield) {
		s.Stats["unlock_yields"]++
		s.yield(site)
	}
}

// Point is a statement-level scheduling point (inserted by simgen -stmt-points into selected
// files): with probability Config.StmtYield the running task gives up the baton here.
//
//go:norace
func Point(site string) {
	s := cur()
	if s == nil || s.inspect || s.killing || s.cfg.StmtYield <= 0 || s.current == nil {
		return
	}
	if s.unlockr.Bool(s.cfg.StmtYield) {
		s.Stats["stmt_yields"]++
		s.yield(site)
	}
}
