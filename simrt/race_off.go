//go:build !race

package simrt

func raceDisable() {}
func raceEnable()  {}

const RaceBuild = false
