//go:build race

package simrt

import "runtime"

func raceDisable() { runtime.RaceDisable() }
func raceEnable()  { runtime.RaceEnable() }

// RaceBuild reports whether the engine was built with the race detector.
const RaceBuild = true
