package simrt

// Own PRNG (xoshiro256** seeded through splitmix64) so that a seed means the same
// execution whatever Go release compiled the harness.

type Rand struct{ s [4]uint64 }

//go:norace
func splitmix(x *uint64) uint64 {
	*x += 0x9e3779b97f4a7c15
	z := *x
	z = (z ^ (z >> 30)) * 0xbf58476d1ce4e5b9
	z = (z ^ (z >> 27)) * 0x94d049bb133111eb
	return z ^ (z >> 31)
}

// Mix derives a sub-seed from a seed and a purpose label (FNV-1a over the label).
func Mix(seed uint64, purpose string) uint64 {
	h := uint64(14695981039346656037)
	for i := 0; i < len(purpose); i++ {
		h ^= uint64(purpose[i])
		h *= 1099511628211
	}
	x := seed ^ h
	return splitmix(&x)
}

//go:norace
func NewRand(seed uint64, purpose string) *Rand {
	x := Mix(seed, purpose)
	r := &Rand{}
	for i := range r.s {
		r.s[i] = splitmix(&x)
	}
	return r
}

func rotl(x uint64, k uint) uint64 { return (x << k) | (x >> (64 - k)) }

//go:norace
func (r *Rand) Uint64() uint64 {
	s := &r.s
	res := rotl(s[1]*5, 7) * 9
	t := s[1] << 17
	s[2] ^= s[0]
	s[3] ^= s[1]
	s[1] ^= s[2]
	s[0] ^= s[3]
	s[2] ^= t
	s[3] = rotl(s[3], 45)
	return res
}

// Intn returns a value in [0,n). n<=0 returns 0.
//
//go:norace
func (r *Rand) Intn(n int) int {
	if n <= 1 {
		return 0
	}
	return int(r.Uint64() % uint64(n))
}

//go:norace
func (r *Rand) Float64() float64 { return float64(r.Uint64()>>11) / (1 << 53) }

//go:norace
func (r *Rand) Bool(p float64) bool { return r.Float64() < p }

//go:norace
func (r *Rand) Perm(n int) []int {
	p := make([]int, n)
	for i := range p {
		p[i] = i
	}
	for i := n - 1; i > 0; i-- {
		j := r.Intn(i + 1)
		p[i], p[j] = p[j], p[i]
	}
	return p
}

// Range returns a value in [lo,hi].
//
//go:norace
func (r *Rand) Range(lo, hi int) int {
	if hi <= lo {
		return lo
	}
	return lo + r.Intn(hi-lo+1)
}
