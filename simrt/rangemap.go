package simrt

import (
	"cmp"
	"iter"
	"slices"
)

// RangeMap replaces `range m` over a map with an ordered key type: the iteration order is a
// PRNG-chosen rotation/permutation of the sorted keys (Go's own order is random per run and
// would break replay). Deleted entries not yet reached are skipped, as Go does.
func RangeMap[M ~map[K]V, K cmp.Ordered, V any](site string, m M) iter.Seq2[K, V] {
	return func(yield func(K, V) bool) {
		if len(m) == 0 {
			return
		}
		keys := make([]K, 0, len(m))
		for k := range m {
			keys = append(keys, k)
		}
		slices.Sort(keys)
		if s := cur(); s != nil && !s.inspect && len(keys) > 1 && !s.cfg.SortedMaps {
			r := s.mapRand(site)
			for i := len(keys) - 1; i > 0; i-- {
				j := r.Intn(i + 1)
				keys[i], keys[j] = keys[j], keys[i]
			}
		}
		for _, k := range keys {
			v, ok := m[k]
			if !ok {
				continue
			}
			if !yield(k, v) {
				return
			}
		}
	}
}
