package simrt

import (
	"cmp"
	"iter"
	"slices"
)

// rangePerm returns the seeded permutation for one map iteration (nil = sorted order).
//
//go:norace
func rangePerm(site string, n int) []int {
	s := cur()
	if s == nil || s.inspect || n < 2 || s.cfg.SortedMaps {
		return nil
	}
	return s.mapRand(site).Perm(n)
}

// RangeMap replaces `range m` over a map with an ordered key type: the iteration order is a
// PRNG-chosen permutation of the sorted keys (Go's own order is random per run and would break
// replay). Deleted entries not yet reached are skipped, as Go does.
func RangeMap[M ~map[K]V, K cmp.Ordered, V any](site string, m M) iter.Seq2[K, V] {
	return func(yield func(K, V) bool) {
		if len(m) == 0 {
			return
		}
		keys := make([]K, 0, len(m))
		for k := range m {
			keys = append(keys, k)
		}
		slices.Sort(keys)
		if p := rangePerm(site, len(keys)); p != nil {
			o := make([]K, len(keys))
			for i, j := range p {
				o[i] = keys[j]
			}
			keys = o
		}
		for _, k := range keys {
			v, ok := m[k]
			if !ok {
				continue
			}
			if !yield(k, v) {
				return
			}
		}
	}
}
