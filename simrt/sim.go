// Package simrt is the runtime of the hagall deterministic simulator.
//
// Every task is a real goroutine; what is not real is the choice of who runs. Exactly one
// task holds the baton at any time. A task gives the baton back at every scheduling point
// (before Lock/RLock, before every channel operation and select, at start and end, inside the
// simulated network). The scheduler goroutine (the root of a testing/synctest bubble) uses
// synctest.Wait for quiescence, then lets a seeded policy choose among the runnable tasks and
// the next due event. Time is a discrete-event heap; the bubble's fake clock is slaved to it.
package simrt

import (
	"container/heap"
	"crypto/sha256"
	"encoding/binary"
	"encoding/hex"
	"fmt"
	"hash"
	"runtime"
	"sort"
	"strconv"
	"strings"
	"sync/atomic"
	"testing/synctest"
	"time"
)

type taskState int32

const (
	stRunnable taskState = iota // parked at a scheduling point, may be resumed
	stLockWait                  // parked, wants a lock
	stNative                    // inside a native blocking operation (channel, select, net)
	stRunning                   // holds the baton
	stDone
)

//go:norace
func (s taskState) String() string {
	return [...]string{"runnable", "lockwait", "native", "running", "done"}[s]
}

// Task is one simulated goroutine.
type Task struct {
	ID    int
	Name  string // spawn site
	Label string // harness supplied (e.g. "conn3")

	// plain, not atomic: an atomic would be a synchronisation edge task -> scheduler in the
	// eyes of the race detector (atomics are not covered by RaceDisable). It is only read when
	// every goroutine of the bubble is durably blocked.
	state int32
	wake  chan struct{}
	kill  chan struct{}

	Site  string // last scheduling point
	Steps uint64 // per task scheduling point counter

	wantM  *Mutex
	wantRW *RWMutex
	wantW  bool
	grant  bool // lock was pre-granted (reader released by a writer's unlock)

	stallUntil time.Duration
	prio       float64
	killed     bool

	Panic      any
	PanicStack string
	held       int // number of simulated locks currently held (diagnostics)
}

//go:norace
//go:norace
func (t *Task) setState(st taskState) { t.state = int32(st) }

//go:norace
func (t *Task) State() string { return taskState(t.state).String() }

//go:norace
func (t *Task) st() taskState { return taskState(t.state) }

//go:norace
func (t *Task) Done() bool { return t.st() == stDone }

type Event struct {
	at   time.Duration
	seq  uint64
	Kind string
	fn   func()
	idx  int
	dead bool
}

type eventHeap []*Event

//go:norace
func (h eventHeap) Len() int { return len(h) }

//go:norace
func (h eventHeap) Less(i, j int) bool {
	if h[i].at != h[j].at {
		return h[i].at < h[j].at
	}
	return h[i].seq < h[j].seq
}

//go:norace
func (h eventHeap) Swap(i, j int) { h[i], h[j] = h[j], h[i]; h[i].idx = i; h[j].idx = j }

//go:norace
func (h *eventHeap) Push(x any) { e := x.(*Event); e.idx = len(*h); *h = append(*h, e) }

//go:norace
func (h *eventHeap) Pop() any {
	o := *h
	n := len(o)
	e := o[n-1]
	*h = o[:n-1]
	e.idx = -1
	return e
}

//go:norace
func (h eventHeap) top() *Event { return h[0] }

// Config selects the schedule space sampled by one run.
type Config struct {
	Seed        uint64
	Policy      string  // "seq" | "rand" | "pct"
	Sticky      float64 // rand: probability of continuing the task that ran last
	PCTDepth    int     // pct: number of priority change points + 1
	PCTLen      int     // pct: estimated run length in steps
	StallProb   float64 // probability that a scheduling point stalls the task for a while
	StallMax    time.Duration
	MaxSteps    uint64
	Trace       bool    // keep the textual event log
	EventFirst  bool    // seq policy: due events before tasks (default tasks first)
	UnlockYield float64 // probability that releasing a lock is a scheduling point too (check-then-act after unlock)
	StmtYield   float64 // probability that a statement-level point (files rewritten with -stmt-points) is a scheduling point
	SelectOrder string  // "" = seeded permutation of ready cases; "source" / "reverse" = fixed preference
	SortedMaps  bool    // iterate maps in sorted key order instead of a seeded permutation
}

type Sim struct {
	cfg     Config
	start   time.Time
	tasks   []*Task
	nextID  int
	current *Task
	last    *Task
	events  eventHeap
	seq     uint64

	Steps    uint64
	Switches uint64

	sched   *Rand
	selr    *Rand
	stallr  *Rand
	unlockr *Rand
	maps    map[string]*Rand

	inspect bool
	killing bool

	pctChange map[uint64]bool
	pctLow    float64
	evPrio    float64

	digest hash.Hash
	logbuf []byte
	trace  []string

	Panics   []*Task
	Failure  string // harness level failure (unmodelled blocking, step cap)
	Stats    map[string]int
	siteHits map[string]int

	// block hashing: interleaving signature inside concurrent blocks
	blockHash hash.Hash
}

var theSim atomic.Pointer[Sim]

//go:norace
func cur() *Sim { return theSim.Load() }

// New creates the simulator; it must be called from the root goroutine of a synctest bubble.
//
//go:norace
func New(cfg Config) *Sim {
	if cfg.MaxSteps == 0 {
		cfg.MaxSteps = 5_000_000
	}
	if cfg.Policy == "" {
		cfg.Policy = "seq"
	}
	s := &Sim{
		cfg:      cfg,
		start:    time.Now(),
		sched:    NewRand(cfg.Seed, "sched"),
		selr:     NewRand(cfg.Seed, "select"),
		stallr:   NewRand(cfg.Seed, "stall"),
		unlockr:  NewRand(cfg.Seed, "unlock"),
		maps:     map[string]*Rand{},
		digest:   sha256.New(),
		Stats:    map[string]int{},
		siteHits: map[string]int{},
	}
	if cfg.Policy == "pct" {
		s.pctChange = map[uint64]bool{}
		n := cfg.PCTLen
		if n <= 0 {
			n = 2000
		}
		for i := 1; i < cfg.PCTDepth; i++ {
			s.pctChange[uint64(s.sched.Intn(n))] = true
		}
		s.evPrio = s.sched.Float64()
	}
	theSim.Store(s)
	// The scheduler goroutine (the bubble's root: harness, clients, network, oracles) performs
	// no synchronisation the race detector may see, for the whole run: any edge it took part
	// in would order tasks with one another that the program itself does not order.
	raceDisable()
	return s
}

//go:norace
func (s *Sim) Now() time.Duration { return time.Since(s.start) }

//go:norace
func (s *Sim) Config() Config { return s.cfg }

// Logf appends to the event log (digest always, text only when tracing). It never draws
// from a PRNG and never reads a clock other than the simulated one. Outside trace mode it does
// not go through fmt: the scheduler goroutine is deliberately not ordered with the tasks for
// the race detector, and fmt's pooled buffers would show up as (harmless, but slow to print)
// reports.
//
//go:norace
func (s *Sim) Logf(format string, a ...any) {
	var tb [8]byte
	binary.LittleEndian.PutUint64(tb[:], uint64(s.Now()))
	s.digest.Write(tb[:])
	if s.cfg.Trace {
		line := fmt.Sprintf(format, a...)
		s.digest.Write([]byte(line))
		s.digest.Write([]byte{'\n'})
		s.trace = append(s.trace, fmt.Sprintf("%12d ", int64(s.Now()/time.Microsecond))+line)
		return
	}
	// same bytes as fmt would produce for the verbs the simulator uses (%s %d %q %v on
	// strings and integers); anything else falls back to fmt
	buf := s.logbuf[:0]
	ai := 0
	for i := 0; i < len(format); i++ {
		c := format[i]
		if c != '%' || i+1 >= len(format) {
			buf = append(buf, c)
			continue
		}
		i++
		if format[i] == '%' {
			buf = append(buf, '%')
			continue
		}
		if ai >= len(a) {
			buf = append(buf, '?')
			continue
		}
		switch v := a[ai].(type) {
		case string:
			if format[i] == 'q' {
				buf = strconv.AppendQuote(buf, v)
			} else {
				buf = append(buf, v...)
			}
		case int:
			buf = strconv.AppendInt(buf, int64(v), 10)
		case int32:
			buf = strconv.AppendInt(buf, int64(v), 10)
		case int64:
			buf = strconv.AppendInt(buf, v, 10)
		case uint32:
			buf = strconv.AppendUint(buf, uint64(v), 10)
		case uint64:
			buf = strconv.AppendUint(buf, v, 10)
		case uint8:
			buf = strconv.AppendUint(buf, uint64(v), 10)
		default:
			buf = append(buf, fmt.Sprint(v)...)
		}
		ai++
	}
	buf = append(buf, '\n')
	s.digest.Write(buf)
	s.logbuf = buf
}

func (s *Sim) Digest() string { return hex.EncodeToString(s.digest.Sum(nil)) }

//go:norace
func (s *Sim) Trace() []string { return s.trace }

// After schedules f on the scheduler goroutine at now+d.
//
//go:norace
func (s *Sim) After(d time.Duration, kind string, f func()) *Event {
	if d < 0 {
		d = 0
	}
	s.seq++
	e := &Event{at: s.Now() + d, seq: s.seq, Kind: kind, fn: f}
	heap.Push(&s.events, e)
	return e
}

//go:norace
func (s *Sim) Cancel(e *Event) {
	if e == nil || e.dead {
		return
	}
	e.dead = true
	if e.idx >= 0 && e.idx < len(s.events) && s.events[e.idx] == e {
		heap.Remove(&s.events, e.idx)
	}
}

//go:norace
func (s *Sim) PendingEvents(kindPrefix string) int {
	n := 0
	for _, e := range s.events {
		if strings.HasPrefix(e.Kind, kindPrefix) {
			n++
		}
	}
	return n
}

// EventTimes lists the times of the pending events of one kind, sorted.
//
//go:norace
func (s *Sim) EventTimes(kindPrefix string) []time.Duration {
	var out []time.Duration
	for _, e := range s.events {
		if strings.HasPrefix(e.Kind, kindPrefix) {
			out = append(out, e.at)
		}
	}
	sort.Slice(out, func(i, j int) bool { return out[i] < out[j] })
	return out
}

// NextEventAt reports the time of the earliest pending event.
//
//go:norace
func (s *Sim) NextEventAt() (time.Duration, bool) {
	if len(s.events) == 0 {
		return 0, false
	}
	return s.events.top().at, true
}

//go:norace
func (s *Sim) mapRand(site string) *Rand {
	r := s.maps[site]
	if r == nil {
		r = NewRand(s.cfg.Seed, "map:"+site)
		s.maps[site] = r
	}
	return r
}

// ---------------------------------------------------------------------------------------------
// tasks

//go:norace
func (s *Sim) spawn(name string, f func()) *Task {
	t := &Task{ID: s.nextID, Name: name, wake: make(chan struct{}, 1), kill: make(chan struct{})}
	s.nextID++
	t.setState(stRunnable)
	t.Site = "start:" + name
	if s.cfg.Policy == "pct" {
		t.prio = s.sched.Float64()
	}
	s.tasks = append(s.tasks, t)
	s.Stats["tasks"]++
	go func() {
		defer func() {
			if r := recover(); r != nil {
				if _, ok := r.(inspectBusy); !ok {
					t.Panic = r
					buf := make([]byte, 16<<10)
					t.PanicStack = string(buf[:runtime.Stack(buf, false)])
					s.Panics = append(s.Panics, t)
				}
			}
			raceDisable()
			t.setState(stDone)
			if s.current == t {
				s.current = nil
			}
			raceEnable()
		}()
		// Hand-offs of the baton must not look like synchronisation to the race detector:
		// the program's own happens-before edges are the only ones it may see.
		raceDisable()
		select {
		case <-t.wake:
		case <-t.kill:
			raceEnable()
			return
		}
		raceEnable()
		f()
	}()
	return t
}

// Go is what an instrumented `go` statement becomes.
//
//go:norace
func Go(site string, f func()) {
	s := cur()
	if s == nil {
		go f()
		return
	}
	s.spawn(site, f)
}

// GoLabel spawns a task with a harness label and returns it.
//
//go:norace
func (s *Sim) GoLabel(site, label string, f func()) *Task {
	t := s.spawn(site, f)
	t.Label = label
	return t
}

//go:norace
func (s *Sim) Tasks() []*Task { return s.tasks }

//go:norace
func (s *Sim) LiveTasks() []*Task {
	var r []*Task
	for _, t := range s.tasks {
		if !t.Done() {
			r = append(r, t)
		}
	}
	return r
}

// park gives the baton back and waits for it. st is the state to park in.
//
//go:norace
func (s *Sim) park(t *Task, st taskState) {
	raceDisable()
	t.setState(st)
	if s.current == t {
		s.current = nil
	}
	select {
	case <-t.wake:
	case <-t.kill:
		raceEnable()
		runtime.Goexit()
	}
	raceEnable()
}

// self returns the task holding the baton. Calling a simulated operation from a goroutine
// that is not a task (or from the scheduler outside Inspect) is a harness defect.
//
//go:norace
func (s *Sim) self(op string) *Task {
	t := s.current
	if t == nil {
		panic("simrt: " + op + " without the baton (call from the scheduler goroutine outside Inspect, or from a foreign goroutine)")
	}
	return t
}

//go:norace
func callerSite(skip int) string {
	var pcs [1]uintptr
	if runtime.Callers(skip+1, pcs[:]) == 0 {
		return "?"
	}
	pc := pcs[0]
	if v, ok := siteCache.Load(pc); ok {
		return v.(string)
	}
	fr, _ := runtime.CallersFrames(pcs[:]).Next()
	f := fr.File
	if i := strings.LastIndex(f, "/"); i >= 0 {
		if j := strings.LastIndex(f[:i], "/"); j >= 0 {
			f = f[j+1:]
		}
	}
	v := f + ":" + strconv.Itoa(fr.Line)
	siteCache.Store(pc, v)
	return v
}

// callerFunc names the calling function ("file.go Func"), without a line: the line reported for
// a deferred call differs between the plain and the race-detector build, and sites go into the
// event log.
//
//go:norace
func callerFunc(skip int) string {
	var pcs [1]uintptr
	if runtime.Callers(skip+1, pcs[:]) == 0 {
		return "?"
	}
	pc := pcs[0]
	if v, ok := funcCache.Load(pc); ok {
		return v.(string)
	}
	fr, _ := runtime.CallersFrames(pcs[:]).Next()
	f := fr.File
	if i := strings.LastIndex(f, "/"); i >= 0 {
		if j := strings.LastIndex(f[:i], "/"); j >= 0 {
			f = f[j+1:]
		}
	}
	fn := fr.Function
	if i := strings.LastIndex(fn, "/"); i >= 0 {
		fn = fn[i+1:]
	}
	v := f + " " + fn + " unlock"
	funcCache.Store(pc, v)
	return v
}

// yield is a plain scheduling point.
//
//go:norace
func (s *Sim) yield(site string) {
	t := s.self("yield@" + site)
	t.Site = site
	t.Steps++
	if s.cfg.StallProb > 0 && s.stallr.Bool(s.cfg.StallProb) {
		d := time.Duration(1+s.stallr.Intn(int(s.cfg.StallMax/time.Microsecond))) * time.Microsecond
		t.stallUntil = s.Now() + d
		s.Stats["fault.task_stall"]++
		s.After(d, "stall-release", func() {})
	}
	s.park(t, stRunnable)
}

// Yield is a scheduling point usable by harness stubs running inside tasks.
//
//go:norace
func Yield(site string) {
	s := cur()
	if s == nil || s.inspect || s.killing {
		return
	}
	s.yield(site)
}

// enterNative / exitNative bracket a native blocking operation executed by a task.
//
//go:norace
func (s *Sim) enterNative(t *Task) {
	raceDisable()
	t.setState(stNative)
	s.current = nil
	raceEnable()
}

//go:norace
func (s *Sim) exitNative(t *Task) {
	// Runs concurrently with whoever holds the baton: touch nothing but our own state.
	s.parkQuiet(t)
}

//go:norace
func (s *Sim) parkQuiet(t *Task) {
	raceDisable()
	t.setState(stRunnable)
	select {
	case <-t.wake:
	case <-t.kill:
		raceEnable()
		runtime.Goexit()
	}
	raceEnable()
}

// Block parks the calling task until ch is closed or receives (harness stubs: simulated I/O).
//
//go:norace
func Block(site string, ch <-chan struct{}) {
	s := cur()
	if s == nil || s.inspect {
		<-ch
		return
	}
	if s.killing {
		select {
		case <-ch:
		default:
			runtime.Goexit()
		}
		return
	}
	t := s.self("block@" + site)
	t.Site = site
	select {
	case <-ch:
		return
	default:
	}
	s.enterNative(t)
	select {
	case <-ch:
	case <-t.kill:
		runtime.Goexit()
	}
	s.exitNative(t)
}

// ---------------------------------------------------------------------------------------------
// the scheduler

type cand struct {
	t  *Task
	ev bool
}

//go:norace
func (s *Sim) lockReady(t *Task) bool {
	if t.grant {
		return true
	}
	if t.wantM != nil {
		return !t.wantM.held
	}
	if t.wantRW != nil {
		if t.wantW {
			return !t.wantRW.writer && t.wantRW.readers == 0
		}
		return !t.wantRW.writer && t.wantRW.writersWaiting == 0
	}
	return true
}

// Step performs one scheduling decision. It returns false when nothing can ever happen
// again without outside input (no runnable task, no pending event).
//
//go:norace
func (s *Sim) Step() bool {
	raceDisable()
	defer raceEnable()
	synctest.Wait()
	if s.current != nil {
		// A task kept the baton and is durably blocked in something we do not model.
		s.Failure = fmt.Sprintf("unmodelled blocking operation in task %d %s (%s) at %s", s.current.ID, s.current.Name, s.current.Label, s.current.Site)
		s.current.setState(stNative)
		s.current = nil
	}
	if s.Steps >= s.cfg.MaxSteps {
		if s.Failure == "" {
			s.Failure = "step cap reached"
		}
		return false
	}
	now := s.Now()
	var cands []cand
	live := 0
	for _, t := range s.tasks {
		switch t.st() {
		case stDone:
			continue
		case stRunnable:
			live++
			if t.stallUntil > now {
				continue
			}
			cands = append(cands, cand{t: t})
		case stLockWait:
			live++
			if t.stallUntil <= now && s.lockReady(t) {
				cands = append(cands, cand{t: t})
			}
		default:
			live++
		}
	}
	if live*2 < len(s.tasks) && len(s.tasks) > 32 {
		k := s.tasks[:0]
		for _, t := range s.tasks {
			if !t.Done() {
				k = append(k, t)
			}
		}
		s.tasks = k
	}
	evDue := len(s.events) > 0 && s.events.top().at <= now
	if len(cands) == 0 && !evDue {
		if len(s.events) == 0 {
			return false
		}
		d := s.events.top().at - now
		time.Sleep(d)
		return true
	}
	if len(cands) > 1 {
		s.Stats["choice_points"]++
	}
	c := s.pick(cands, evDue)
	s.Steps++
	if c.ev {
		e := heap.Pop(&s.events).(*Event)
		e.dead = true
		s.Logf("E %s", e.Kind)
		raceEnable()
		e.fn()
		raceDisable()
		return true
	}
	t := c.t
	if t.st() == stLockWait {
		s.acquireFor(t)
	}
	if s.last != t {
		s.Switches++
	}
	s.last = t
	s.Logf("T %d %s %d", t.ID, t.Site, t.Steps)
	if s.blockHash != nil {
		fmt.Fprintf(s.blockHash, "%s|%s;", t.Name, t.Site)
	}
	s.siteHits[t.Site]++
	s.current = t
	t.setState(stRunning)
	t.wake <- struct{}{}
	return true
}

//go:norace
func (s *Sim) pick(cands []cand, evDue bool) cand {
	switch s.cfg.Policy {
	case "seq":
		if evDue && (s.cfg.EventFirst || len(cands) == 0) {
			return cand{ev: true}
		}
		// continue the task that ran last if possible, else lowest id: run-to-completion.
		for _, c := range cands {
			if c.t == s.last {
				return c
			}
		}
		return cands[0]
	case "pct":
		if s.pctChange[s.Steps] {
			// demote whoever would run now
			best := s.pctBest(cands, evDue)
			s.pctLow -= 1
			if best.ev {
				s.evPrio = s.pctLow
			} else {
				best.t.prio = s.pctLow
			}
			s.Stats["pct_change_points_hit"]++
		}
		return s.pctBest(cands, evDue)
	default: // rand
		n := len(cands)
		if evDue {
			n++
		}
		if s.cfg.Sticky > 0 && s.last != nil {
			for _, c := range cands {
				if c.t == s.last {
					if s.sched.Bool(s.cfg.Sticky) {
						return c
					}
					break
				}
			}
		}
		i := s.sched.Intn(n)
		if i == len(cands) {
			return cand{ev: true}
		}
		return cands[i]
	}
}

//go:norace
func (s *Sim) pctBest(cands []cand, evDue bool) cand {
	var best cand
	bp := -1e18
	for _, c := range cands {
		if c.t.prio > bp {
			bp = c.t.prio
			best = c
		}
	}
	if evDue && (s.evPrio > bp || len(cands) == 0) {
		return cand{ev: true}
	}
	return best
}

// RunUntil runs until simulated time t, or until nothing can happen.
//
//go:norace
func (s *Sim) RunUntil(t time.Duration) {
	for {
		synctest.Wait()
		if !s.anythingBefore(t) {
			if d := t - s.Now(); d > 0 {
				time.Sleep(d)
			}
			return
		}
		if !s.Step() {
			return
		}
	}
}

// anythingBefore: is there a runnable task now or an event at or before t?
//
//go:norace
func (s *Sim) anythingBefore(t time.Duration) bool {
	if s.Failure != "" {
		return false
	}
	now := s.Now()
	if s.current != nil {
		return true
	}
	for _, k := range s.tasks {
		switch k.st() {
		case stRunnable:
			if k.stallUntil <= now {
				return true
			}
		case stLockWait:
			if k.stallUntil <= now && s.lockReady(k) {
				return true
			}
		}
	}
	return len(s.events) > 0 && s.events.top().at <= t
}

// RunFor advances the simulation by d.
//
//go:norace
func (s *Sim) RunFor(d time.Duration) { s.RunUntil(s.Now() + d) }

// Settle runs all runnable tasks and all events that are due now, without advancing time.
//
//go:norace
func (s *Sim) Settle() { s.RunUntil(s.Now()) }

// BeginBlock / EndBlock delimit a concurrent block for the interleaving signature.
//
//go:norace
func (s *Sim) BeginBlock() { s.blockHash = sha256.New() }

//go:norace
func (s *Sim) EndBlock() string {
	if s.blockHash == nil {
		return ""
	}
	h := hex.EncodeToString(s.blockHash.Sum(nil)[:8])
	s.blockHash = nil
	return h
}

// Describe lists the live tasks with their states (diagnostics for wedges).
//
//go:norace
func (s *Sim) Describe() []string {
	var out []string
	for _, t := range s.tasks {
		if t.Done() {
			continue
		}
		w := ""
		if t.st() == stLockWait {
			if t.wantM != nil {
				w = fmt.Sprintf(" wants mutex(held=%v)", t.wantM.held)
			} else if t.wantRW != nil {
				w = fmt.Sprintf(" wants rw(write=%v writer=%v readers=%d ww=%d)", t.wantW, t.wantRW.writer, t.wantRW.readers, t.wantRW.writersWaiting)
			}
		}
		out = append(out, fmt.Sprintf("task %d %s [%s] %s at %s%s", t.ID, t.Name, t.Label, t.State(), t.Site, w))
	}
	sort.Strings(out)
	return out
}

// SiteHits returns how often each scheduling site was resumed.
//
//go:norace
func (s *Sim) SiteHits() map[string]int { return s.siteHits }

// Inspect runs f on the scheduler goroutine with lock operations taken directly (no
// scheduling points). If a lock is held by a parked task, f is abandoned and false returned.
//
//go:norace
func (s *Sim) Inspect(f func()) (ok bool) {
	s.inspect = true
	// the harness reading server state through the program's own locks must not order the
	// tasks with one another in the eyes of the race detector
	raceDisable()
	defer func() {
		raceEnable()
		s.inspect = false
		if r := recover(); r != nil {
			if _, busy := r.(inspectBusy); busy {
				ok = false
				return
			}
			panic(r)
		}
	}()
	f()
	return true
}

type inspectBusy struct{}

// Close ends the run: every task that is still alive is killed (its deferred calls run with
// simulated operations degraded to non-blocking ones). It must be called inside the bubble.
//
//go:norace
func (s *Sim) Close() {
	s.killing = true
	for i := 0; i < len(s.tasks); i++ { // tasks may spawn tasks while dying
		t := s.tasks[i]
		if t.Done() {
			continue
		}
		t.killed = true
		s.current = t
		raceDisable()
		close(t.kill)
		synctest.Wait()
		raceEnable()
		s.current = nil
	}
	s.events = nil
	raceEnable()
	theSim.CompareAndSwap(s, nil)
}

var funcCache = newSiteCache()
var siteCache = newSiteCache()

// StallTasks withholds the baton from every live task whose spawn site has the given prefix
// for d of simulated time (the "slow or stalled node" fault aimed at one component).
//
//go:norace
func (s *Sim) StallTasks(prefix string, d time.Duration) int {
	n := 0
	until := s.Now() + d
	for _, t := range s.tasks {
		if !t.Done() && strings.HasPrefix(t.Name, prefix) {
			t.stallUntil = until
			n++
		}
	}
	if n > 0 {
		s.Stats["fault.component_stall"]++
		s.After(d, "stall-release", func() {})
	}
	return n
}
