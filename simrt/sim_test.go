package simrt

import (
	"fmt"
	"testing"
	"testing/synctest"
	"time"
)

func runToy(seed uint64, policy string) (string, uint64) {
	var digest string
	var steps uint64
	t := &testing.T{}
	_ = t
	return digest, steps
}

func toy(t *testing.T, seed uint64, policy string) (string, int, uint64) {
	var digest string
	var total int
	var steps uint64
	synctest.Test(t, func(t *testing.T) {
		s := New(Config{Seed: seed, Policy: policy, PCTDepth: 3, PCTLen: 500, Sticky: 0.5})
		var mu Mutex
		var rw RWMutex
		ch := make(chan int, 2)
		done := make(chan struct{})
		sum := 0
		var wg WaitGroup
		for p := 0; p < 3; p++ {
			p := p
			wg.Add(1)
			Go(fmt.Sprintf("prod%d", p), func() {
				defer wg.Done()
				for i := 0; i < 20; i++ {
					rw.RLock()
					rw.RUnlock()
					Send("toy:send", ch, p*100+i)
				}
			})
		}
		Go("closer", func() {
			wg.Wait()
			close(done)
		})
		tick := NewTicker(10 * time.Millisecond)
		Go("cons", func() {
			for {
				sel := NewSel("toy:sel")
				c0 := SelRecv(sel, ch)
				SelRecv(sel, done)
				SelRecv(sel, tick.C)
				switch sel.Wait() {
				case 0:
					mu.Lock()
					sum += c0.Val
					s.Logf("got %d", c0.Val)
					mu.Unlock()
				case 1:
					if len(ch) == 0 {
						return
					}
				case 2:
					rw.Lock()
					rw.Unlock()
				}
			}
		})
		s.RunFor(time.Second)
		total = sum
		digest = s.Digest()
		steps = s.Steps
		live := s.LiveTasks()
		if len(live) != 0 {
			t.Errorf("live tasks: %v", s.Describe())
		}
		tick.Stop()
		s.Close()
	})
	return digest, total, steps
}

func TestToyDeterminism(t *testing.T) {
	want := 0
	for p := 0; p < 3; p++ {
		for i := 0; i < 20; i++ {
			want += p*100 + i
		}
	}
	digs := map[string]bool{}
	for _, pol := range []string{"seq", "rand", "pct"} {
		for seed := uint64(1); seed <= 20; seed++ {
			d1, s1, n1 := toy(t, seed, pol)
			d2, s2, _ := toy(t, seed, pol)
			if d1 != d2 {
				t.Fatalf("nondeterministic %s %d", pol, seed)
			}
			if s1 != want || s2 != want {
				t.Fatalf("sum %d want %d", s1, want)
			}
			digs[d1] = true
			_ = n1
		}
	}
	t.Logf("distinct digests: %d", len(digs))
}

func TestDeadlockVisible(t *testing.T) {
	synctest.Test(t, func(t *testing.T) {
		s := New(Config{Seed: 1, Policy: "rand"})
		var a, b Mutex
		Go("t1", func() { a.Lock(); Yield("x"); b.Lock(); b.Unlock(); a.Unlock() })
		Go("t2", func() { b.Lock(); Yield("y"); a.Lock(); a.Unlock(); b.Unlock() })
		s.RunFor(time.Second)
		t.Logf("live after run: %v", s.Describe())
		s.Close()
	})
}
