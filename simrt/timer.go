package simrt

import "time"

// Timer and Ticker replace time.Timer / time.Ticker in instrumented packages. They are
// events in the simulator's heap; channel semantics follow Go 1.23 (no stale value after
// Stop or Reset).
type Timer struct {
	C  <-chan time.Time
	c  chan time.Time
	ev *Event
	f  func()
}

//go:norace
func mustSim(op string) *Sim {
	s := cur()
	if s == nil {
		panic("simrt: " + op + " outside a simulation")
	}
	return s
}

//go:norace
func (t *Timer) arm(s *Sim, d time.Duration) {
	t.ev = s.After(d, "timer", func() {
		t.ev = nil
		s.Stats["timer_fired"]++
		if t.f != nil {
			f := t.f
			s.spawn("AfterFunc", f)
			return
		}
		select {
		case t.c <- time.Now():
		default:
		}
	})
}

//go:norace
func NewTimer(d time.Duration) *Timer {
	s := mustSim("NewTimer")
	c := make(chan time.Time, 1)
	t := &Timer{C: c, c: c}
	t.arm(s, d)
	return t
}

//go:norace
func AfterFunc(d time.Duration, f func()) *Timer {
	s := mustSim("AfterFunc")
	t := &Timer{f: f}
	t.arm(s, d)
	return t
}

//go:norace
func After(d time.Duration) <-chan time.Time { return NewTimer(d).C }

//go:norace
func (t *Timer) Stop() bool {
	s := mustSim("Timer.Stop")
	active := t.ev != nil
	if active {
		s.Cancel(t.ev)
		t.ev = nil
	}
	if t.c != nil {
		select {
		case <-t.c:
		default:
		}
	}
	return active
}

//go:norace
func (t *Timer) Reset(d time.Duration) bool {
	s := mustSim("Timer.Reset")
	active := t.Stop()
	t.arm(s, d)
	return active
}

type Ticker struct {
	C   <-chan time.Time
	c   chan time.Time
	ev  *Event
	d   time.Duration
	gen int
}

//go:norace
func NewTicker(d time.Duration) *Ticker {
	if d <= 0 {
		panic("non-positive interval for NewTicker")
	}
	s := mustSim("NewTicker")
	c := make(chan time.Time, 1)
	t := &Ticker{C: c, c: c, d: d}
	t.arm(s)
	return t
}

//go:norace
func (t *Ticker) arm(s *Sim) {
	t.ev = s.After(t.d, "ticker", func() {
		s.Stats["ticker_fired"]++
		select {
		case t.c <- time.Now():
		default:
			s.Stats["ticker_dropped"]++
		}
		t.arm(s)
	})
}

//go:norace
func (t *Ticker) Stop() {
	s := cur()
	if s == nil {
		return
	}
	if t.ev != nil {
		s.Cancel(t.ev)
		t.ev = nil
	}
}

//go:norace
func (t *Ticker) Reset(d time.Duration) {
	s := mustSim("Ticker.Reset")
	t.Stop()
	select {
	case <-t.c:
	default:
	}
	t.d = d
	t.arm(s)
}

//go:norace
func Tick(d time.Duration) <-chan time.Time { return NewTicker(d).C }

// Sleep parks the calling task for d of simulated time.
//
//go:norace
func Sleep(d time.Duration) {
	s := cur()
	if s == nil || s.inspect || s.killing {
		return
	}
	ch := make(chan struct{})
	s.After(d, "sleep", func() { close(ch) })
	Block("time.Sleep", ch)
}
