#!/usr/bin/env python3
"""Regression sensitivity of the repaired defects: for every status=fixed entry of
known_findings.json the fix: commit is reverted in the /repo working tree (reverse patch, no
commit), the check of the finding's property is run (quick, then a 120 s budget), and /repo is
restored straight afterwards. A fixed entry suppresses nothing, so the check must report the
violation again. Results: sensitivity_fixes.json."""
import json, os, re, subprocess, sys, time

HERE = os.path.dirname(os.path.abspath(__file__))
known = json.load(open(os.path.join(HERE, "known_findings.json")))["findings"]
only = sys.argv[1:]
out = {}
sp = os.path.join(HERE, "sensitivity_fixes.json")
if os.path.exists(sp):
    out = json.load(open(sp))
for k in known:
    if k.get("status") != "fixed" or (only and k["id"] not in only):
        continue
    fid, prop, commit = k["id"], k["property"], k["commit"]
    rev = subprocess.run(["git", "-C", "/repo", "show", "-R", "--format=", commit], capture_output=True, text=True).stdout
    pf = "/tmp/revert-%s.diff" % fid
    open(pf, "w").write(rev)
    ported = os.path.join(HERE, "seeded", "reverts", fid + ".diff")
    if subprocess.run(["git", "-C", "/repo", "apply", "--check", pf], capture_output=True).returncode != 0:
        if os.path.exists(ported) and subprocess.run(["git", "-C", "/repo", "apply", "--check", ported], capture_output=True).returncode == 0:
            pf = ported
        else:
            out[fid] = {"property": prop, "commit": commit, "error": "reverse patch does not apply on HEAD (later fixes touch the same lines)"}
            print(fid, "reverse patch does not apply", flush=True)
            continue
    subprocess.check_call(["git", "-C", "/repo", "apply", pf])
    det = {"property": prop, "commit": commit, "runs": [], "ported": pf == ported}
    try:
        for budget in (None, "120000", "300000"):
            env = dict(os.environ)
            env["VERIF_EVIDENCE_DIR"] = "/verif/.build/sweep-evidence"
            if budget:
                env["VERIF_BUDGET_MS"] = budget
            t0 = time.time()
            r = subprocess.run([os.path.join(HERE, "check"), prop, "quick"], capture_output=True, text=True, env=env)
            rule = re.search(r"violated rule ([^:]+):", r.stdout)
            det["runs"].append({"budget_ms": budget or "default", "exit": r.returncode, "wall_s": round(time.time() - t0, 1), "rule": rule.group(1) if rule else None})
            if r.returncode == 1:
                det["caught"] = True
                det["rule"] = rule.group(1) if rule else None
                det["detail"] = (re.search(r"violated rule [^:]+: (.*)", r.stdout) or [None, ""])[1][:300]
                break
            if r.returncode == 2:
                det["error"] = (r.stderr or r.stdout)[-400:]
                break
        else:
            det["caught"] = False
    finally:
        subprocess.check_call(["git", "-C", "/repo", "checkout", "--", "."])
        subprocess.call(["git", "-C", "/repo", "clean", "-fdq"])
    out[fid] = det
    print(fid, prop, "caught" if det.get("caught") else "MISSED", det.get("rule"), [x["wall_s"] for x in det["runs"]], flush=True)
    json.dump(out, open(sp, "w"), indent=1)
json.dump(out, open(sp, "w"), indent=1)
print("caught %d of %d" % (sum(1 for v in out.values() if v.get("caught")), len(out)))
