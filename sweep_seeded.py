#!/usr/bin/env python3
"""Runs every seeded change in /verif/seeded against its property's check (quick first, thorough
budget if missed), records the outcome in seeded/<id>/meta.json and sensitivity.json.
Applies each patch to /repo, runs, and reverts straight afterwards."""
import glob, json, os, re, subprocess, sys, time
out = {}
only = sys.argv[1:]
for d in sorted(glob.glob("/verif/seeded/C*")):
    mid = os.path.basename(d)
    if only and mid not in only:
        continue
    meta = json.load(open(os.path.join(d, "meta.json")))
    prop = meta.get("property", mid.split("-")[0])
    patch = os.path.join(d, "patch.diff")
    if subprocess.run(["git", "-C", "/repo", "apply", "--check", patch]).returncode != 0:
        print(mid, "patch does not apply"); continue
    subprocess.check_call(["git", "-C", "/repo", "apply", patch])
    det = {"check": prop, "runs": []}
    try:
        for tier, budget in (("quick", None), ("quick", "120000")):
            env = dict(os.environ)
            env["VERIF_EVIDENCE_DIR"] = "/verif/.build/sweep-evidence"
            if budget:
                env["VERIF_BUDGET_MS"] = budget
            t0 = time.time()
            r = subprocess.run(["/verif/check", prop, tier], capture_output=True, text=True, env=env)
            rule = re.search(r"violated rule ([^:]+):", r.stdout)
            det["runs"].append({"tier": tier, "budget_ms": budget or "default", "exit": r.returncode, "wall_s": round(time.time() - t0, 1), "rule": rule.group(1) if rule else None})
            if r.returncode == 1:
                det["caught"] = True
                det["rule"] = rule.group(1) if rule else None
                det["detail"] = (re.search(r"violated rule [^:]+: (.*)", r.stdout) or [None, ""])[1][:300]
                break
            if r.returncode == 2:
                det["error"] = (r.stderr or r.stdout)[-400:]
                break
        else:
            det["caught"] = False
            # a change that the check of its own property does not reach in the budget may be
            # in the domain of another property as well (meta.json "also_check")
            for other in meta.get("also_check", []):
                env = dict(os.environ)
                env["VERIF_EVIDENCE_DIR"] = "/verif/.build/sweep-evidence"
                env["VERIF_BUDGET_MS"] = "60000"
                t0 = time.time()
                r = subprocess.run(["/verif/check", other, "quick"], capture_output=True, text=True, env=env)
                rule = re.search(r"violated rule ([^:]+):", r.stdout)
                det.setdefault("also", []).append({"check": other, "exit": r.returncode, "wall_s": round(time.time() - t0, 1), "rule": rule.group(1) if rule else None})
                if r.returncode == 1:
                    det["caught_by_other"] = other
                    break
    finally:
        subprocess.check_call(["git", "-C", "/repo", "checkout", "--", "."])
        subprocess.call(["git", "-C", "/repo", "clean", "-fdq"])
    meta["detection"] = det
    json.dump(meta, open(os.path.join(d, "meta.json"), "w"), indent=1)
    out[mid] = det
    print(mid, "caught" if det.get("caught") else ("caught by " + det["caught_by_other"] if det.get("caught_by_other") else "MISSED"), det.get("rule"), [x["wall_s"] for x in det["runs"]], flush=True)
sp = "/verif/sensitivity.json"
allr = json.load(open(sp)) if os.path.exists(sp) else {}
allr.update(out)
json.dump(allr, open(sp, "w"), indent=1)
print("caught %d of %d" % (sum(1 for v in allr.values() if v.get("caught")), len(allr)))
